#!/usr/bin/env python3
"""Regenerates the table of seeded changes at the end of DESIGN.md section 8.6 from seeded/*/meta.json.
The table lives between the markers <!-- seeded-table-begin --> and <!-- seeded-table-end -->."""
import json
import os

VERIF = os.path.dirname(os.path.dirname(os.path.abspath(__file__)))
BEGIN, END = '<!-- seeded-table-begin -->', '<!-- seeded-table-end -->'


def table():
    rows = []
    for sid in sorted(os.listdir(os.path.join(VERIF, 'seeded'))):
        mp = os.path.join(VERIF, 'seeded', sid, 'meta.json')
        if not os.path.exists(mp):
            continue
        m = json.load(open(mp))
        key = ''
        for r in m.get('checks', {}).values():
            for ln in r['lines']:
                if ln.strip().startswith('#'):
                    key = ln.strip()[2:].split(': ')[0]
                    break
        h = m.get('history', '')
        when = 'first attempt' if not h else ('after strengthening' if h.startswith('initially MISSED') else 'strengthened from the summary')
        rows.append('| %s | %s | %s | %s | %s |' % (sid, ', '.join(m.get('files_touched', [])).replace('emd/', ''),
                                               ', '.join(m.get('caught_by', [])) or '**none**', when, key[:60]))
    return ('| seed | file | caught by (quick) | when | first violation key |\n|---|---|---|---|---|\n' + '\n'.join(rows))


def main():
    p = os.path.join(VERIF, 'DESIGN.md')
    s = open(p).read()
    if BEGIN in s and END in s:
        a, b = s.index(BEGIN) + len(BEGIN), s.index(END)
        s = s[:a] + '\n' + table() + '\n' + s[b:]
        open(p, 'w').write(s)
        print('table updated')
    else:
        print(table())


if __name__ == '__main__':
    main()
