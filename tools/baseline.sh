#!/bin/bash
# Runs the repository's pinned baseline (guard off: EMD_VERIF unset) and checks that every
# stable-pass test of /root/.vp/BASELINE.json still passes.  Usage: tools/baseline.sh [repo_dir]
REPO="${1:-/repo}"
OUT="$(mktemp /dev/shm/baseline.XXXXXX.xml 2>/dev/null || mktemp)"
cd "$REPO" || exit 3
# the suite's logger test leaves EMD_TestLogFile* behind in the temp dir: give it a private one
export TMPDIR="$(mktemp -d /dev/shm/baseline_tmp.XXXXXX 2>/dev/null || mktemp -d)"
trap 'rm -rf "$TMPDIR"' EXIT
env -u EMD_VERIF /venv/bin/python -m pytest -ra -q -p no:cacheprovider --timeout=900 --continue-on-collection-errors --junitxml="$OUT" >/dev/null 2>&1
/venv/bin/python - "$OUT" <<'PY'
import json, sys, xml.etree.ElementTree as ET
base = json.load(open('/root/.vp/BASELINE.json'))['stable_pass']
ok = set()
for tc in ET.parse(sys.argv[1]).getroot().iter('testcase'):
    bad = any(ch.tag in ('failure', 'error', 'skipped') for ch in tc)
    if not bad:
        ok.add(tc.get('classname') + '::' + tc.get('name'))
missing = [t for t in base if t not in ok]
print('baseline: %d/%d stable tests pass; %d tests pass in total' % (len(base) - len(missing), len(base), len(ok)))
for t in missing:
    print('  MISSING', t)
sys.exit(1 if missing else 0)
PY
rc=$?
rm -f "$OUT"
exit $rc
