#!/usr/bin/env python3
"""Regenerates /verif/MANIFEST.json from the property modules present in emdverif/props.
Each module carries MANIFEST = {'text':..., 'note':..., 'technique':..., 'design_ref':...}."""
import ast
import json
import os

VERIF = os.path.dirname(os.path.dirname(os.path.abspath(__file__)))
ALL = ['C%02d' % i for i in range(1, 21)]


def module_manifest(pid):
    path = os.path.join(VERIF, 'emdverif', 'props', pid + '.py')
    if not os.path.exists(path):
        return None
    tree = ast.parse(open(path).read())
    for node in tree.body:
        if isinstance(node, ast.Assign) and getattr(node.targets[0], 'id', None) == 'MANIFEST':
            return ast.literal_eval(node.value)
    return None


def main():
    checks, na = [], []
    for pid in ALL:
        m = module_manifest(pid)
        if m is None:
            na.append({'property_id': pid, 'reason': 'check not built yet in this commit (design in DESIGN.md section 4); the technique applies'})
            continue
        checks.append({
            'property_id': pid,
            'quick_cmd': './check %s quick' % pid,
            'thorough_cmd': './check %s thorough' % pid,
            'evidence_file': 'evidence/%s.json' % pid,
            'replay_cmd_template': './check --replay {path}',
            'engine': 'emdverif',
            'level_claimed': {'category': 'exploration', 'text': m['text'], 'design_ref': m.get('design_ref', 'DESIGN.md section 4, ' + pid)},
            'level_note': m['note'],
            'technique': m['technique'],
        })
    man = {
        'version': 1,
        'setup_cmd': 'mkdir -p evidence replays .work && /venv/bin/python -c "import numpy, scipy, yaml, pandas"',
        'hooks': {
            'guard': 'EMD_VERIF',
            'enable': 'none needed: all instrumentation is installed from /verif at run time by replacing attributes of the imported emd modules (wrappers inherited by forked Pool workers); ./check exports EMD_VERIF=1 but repository code never reads it',
            'baseline_off_cmd': 'cd /repo && env -u EMD_VERIF /venv/bin/python -m pytest -ra -q -p no:cacheprovider --timeout=900 --continue-on-collection-errors',
            'source_commits': [],
            'add_only': True,
        },
        'engines': [{
            'name': 'emdverif',
            'path': 'emdverif/',
            'serves_properties': [c['property_id'] for c in checks],
            'kind_free_text': 'runtime monitoring: seeded/exhaustive workloads drive the real emd functions under recording wrappers; oracles are executable reference models, trace specifications over per-process event logs, and invariants asserted at hooks; three-valued verdicts',
        }],
        'checks': checks,
        'not_applicable': na,
        'notes': 'Every check imports emd from the current working tree of /repo in fresh interpreters (pure Python: that is the rebuild). Exit 0 held on observed / 1 VIOLATION / 2 INCONCLUSIVE (min-observation thresholds unmet or watchdogs fired). Known findings: known_findings.json.',
    }
    with open(os.path.join(VERIF, 'MANIFEST.json'), 'w') as f:
        json.dump(man, f, indent=1)
    print('MANIFEST.json: %d checks, %d not yet built' % (len(checks), len(na)))


if __name__ == '__main__':
    main()
