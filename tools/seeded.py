#!/usr/bin/env python3
"""Confirm and evaluate a seeded property-breaking change produced by an independent sub-agent.

  tools/seeded.py confirm <src_dir> <seed_id> <property> [--props C01,C04] [--tier quick]

<src_dir> holds patch.diff, demo.py, notes.md (as delivered by the sub-agent). Steps, all on a
scratch copy of /repo's HEAD under /dev/shm (never in /repo or /verif), removed afterwards:
  1. the patch applies to the pristine copy;
  2. the repository's baseline test-suite still passes on the patched copy (same stable passes);
  3. the demonstration prints PASS on the pristine copy and FAIL on the patched copy;
  4. the named checks (default: the property's own) are run against the patched copy (EMD_REPO).
Results are written to /verif/seeded/<seed_id>/meta.json next to copies of the patch, demo and notes.

  tools/seeded.py rerun [seed_id ...] [--tier quick] [--fast]   re-evaluate kept seeds against the current checks
                                                      (--fast: patch + checks only, suite and demo not repeated)
"""
import json
import os
import shutil
import subprocess
import sys
import tempfile

VERIF = os.path.dirname(os.path.dirname(os.path.abspath(__file__)))
SEEDED = os.path.join(VERIF, 'seeded')
PY = '/venv/bin/python'


def sh(cmd, cwd=None, env=None, timeout=3600):
    return subprocess.run(cmd, cwd=cwd, env=env, capture_output=True, text=True, timeout=timeout, shell=isinstance(cmd, str))


def scratch_copy():
    base = tempfile.mkdtemp(prefix='emdseed_', dir='/dev/shm')
    r = sh('git -C /repo archive HEAD | tar -x -C %s' % base)
    if r.returncode:
        raise RuntimeError(r.stderr)
    return base


def run_demo(demo, tree):
    env = dict(os.environ, PYTHONPATH=tree, PYTHONDONTWRITEBYTECODE='1')
    env.pop('EMD_VERIF', None)
    r = sh([PY, '-W', 'ignore', demo], cwd=tree, env=env, timeout=1800)
    out = (r.stdout + r.stderr).strip().splitlines()
    return r.returncode, out[-3:]


def run_checks(tree, props, tier, seed=0, shards=None):
    res = {}
    for pid in props:
        env = dict(os.environ, EMD_REPO=tree, VERIF_SEED=str(seed), VERIF_WORK_SUFFIX=os.path.basename(tree))
        cmd = [os.path.join(VERIF, 'check'), pid, tier]
        if shards:
            cmd += ['--shards', str(shards)]
        r = sh(cmd, cwd=VERIF, env=env, timeout=7200)
        lines = [l for l in r.stdout.splitlines() if l.startswith('VIOLATION') or l.startswith('  #') or l.startswith('INCONCLUSIVE') or l.startswith('RESULT')]
        res[pid] = {'exit': r.returncode, 'lines': [l[:400] for l in lines[:8]]}
    shutil.rmtree(os.path.join(VERIF, '.work', 'alt', os.path.basename(tree)), ignore_errors=True)
    return res


def evaluate(patch, demo, props, tier, fast=False):
    meta = {}
    clean = scratch_copy()
    pat = scratch_copy()
    try:
        r = sh(['git', 'apply', '--check', patch], cwd=pat)
        r = sh(['patch', '-p1', '-i', patch], cwd=pat)
        meta['patch_applies'] = r.returncode == 0
        if not meta['patch_applies']:
            meta['patch_error'] = (r.stdout + r.stderr)[-400:]
            return meta
        meta['files_touched'] = sorted(set(l[6:].strip() for l in open(patch) if l.startswith('+++ b/')))
        if not fast:
            b = sh([os.path.join(VERIF, 'tools', 'baseline.sh'), pat])
            meta['baseline_on_patched'] = b.stdout.strip().splitlines()[:3]
            meta['baseline_ok'] = b.returncode == 0
        if not fast and demo and os.path.exists(demo):
            rc0, o0 = run_demo(demo, clean)
            rc1, o1 = run_demo(demo, pat)
            meta['demo_pristine'] = {'exit': rc0, 'tail': o0}
            meta['demo_patched'] = {'exit': rc1, 'tail': o1}
            meta['demo_ok'] = rc0 == 0 and rc1 != 0
        meta['checks'] = run_checks(pat, props, tier)
        meta['caught_by'] = [p for p, r in meta['checks'].items() if r['exit'] == 1]
        return meta
    finally:
        shutil.rmtree(clean, ignore_errors=True)
        shutil.rmtree(pat, ignore_errors=True)


def main():
    a = sys.argv[1:]
    tier = 'quick'
    if '--tier' in a:
        i = a.index('--tier')
        tier = a[i + 1]
        del a[i:i + 2]
    fast = '--fast' in a          # rerun only: apply the patch and run the checks (suite and demonstration were confirmed when the seed was kept)
    if fast:
        a.remove('--fast')
    props = None
    if '--props' in a:
        i = a.index('--props')
        props = a[i + 1].split(',')
        del a[i:i + 2]
    if a[0] == 'confirm':
        src, sid, prop = a[1], a[2], a[3]
        dst = os.path.join(SEEDED, sid)
        os.makedirs(dst, exist_ok=True)
        for fn in ('patch.diff', 'demo.py', 'notes.md'):
            if os.path.exists(os.path.join(src, fn)):
                shutil.copy(os.path.join(src, fn), os.path.join(dst, fn))
        meta = {'seed_id': sid, 'property': prop, 'origin': 'independent sub-agent given only the property text and a scratch worktree',
                'repo_head': sh('git -C /repo rev-parse --short HEAD').stdout.strip()}
        meta.update(evaluate(os.path.join(dst, 'patch.diff'), os.path.join(dst, 'demo.py'), props or [prop], tier))
        meta['tier_run'] = tier
        notes = os.path.join(dst, 'notes.md')
        meta['needs_to_manifest'] = open(notes).read()[:1500] if os.path.exists(notes) else ''
        meta['what_i_ran'] = ['patch -p1 on a scratch copy of /repo HEAD', 'tools/baseline.sh <patched copy>', 'demo.py on pristine and patched copy',
                              'EMD_REPO=<patched copy> ./check <prop> %s for %s' % (tier, ','.join(props or [prop]))]
        json.dump(meta, open(os.path.join(dst, 'meta.json'), 'w'), indent=1)
        print(json.dumps({k: meta.get(k) for k in ('seed_id', 'patch_applies', 'baseline_ok', 'demo_ok', 'caught_by')}))
        for p, r in meta.get('checks', {}).items():
            print(' ', p, 'exit', r['exit'], (r['lines'][1].strip() if len(r['lines']) > 1 else (r['lines'][-1] if r['lines'] else ''))[:220])
    elif a[0] == 'rerun':
        ids = a[1:] or sorted(os.listdir(SEEDED))
        for sid in ids:
            dst = os.path.join(SEEDED, sid)
            mp = os.path.join(dst, 'meta.json')
            if not os.path.exists(mp):
                continue
            meta = json.load(open(mp))
            ps = props or list(meta.get('checks', {})) or [meta['property']]
            new = evaluate(os.path.join(dst, 'patch.diff'), os.path.join(dst, 'demo.py'), ps, tier, fast=fast)
            meta.update(new)
            meta['tier_run'] = tier
            meta['repo_head'] = sh('git -C /repo rev-parse --short HEAD').stdout.strip()
            json.dump(meta, open(mp, 'w'), indent=1)
            print(sid, 'baseline_ok', meta.get('baseline_ok'), 'demo_ok', meta.get('demo_ok'), 'caught_by', meta.get('caught_by'))


if __name__ == '__main__':
    main()
