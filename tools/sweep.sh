#!/bin/bash
# tools/sweep.sh <tier> "<seeds>" [props...]   - silence check on the unchanged tree (DESIGN 6.1)
TIER="$1"; SEEDS="$2"; shift 2
PROPS="$@"; [ -z "$PROPS" ] && PROPS="C01 C02 C03 C04 C05 C06 C07 C08 C09 C10 C11 C12 C13 C14 C15 C16 C17 C18 C19 C20"
bad=0
for s in $SEEDS; do
  for p in $PROPS; do
    t0=$(date +%s)
    out=$(VERIF_SEED=$s VERIF_WORK_SUFFIX=sweep_$$ ./check $p $TIER 2>&1); rc=$?
    t1=$(date +%s)
    echo "seed=$s $p rc=$rc wall=$((t1-t0))s $(echo "$out" | grep -E '^RESULT' | sed 's/RESULT //')"
    if [ $rc -ne 0 ]; then bad=$((bad+1)); echo "$out" | grep -E 'VIOLATION|INCONCLUSIVE|  #' | head -5; fi
  done
done
echo "sweep done: $bad non-zero exits"
rm -rf .work/alt/sweep_$$
