#!/usr/bin/env python3
"""Deliberate-break validation of the monitors (DESIGN section 6.3).

Each mutant in tools/mutants.json is {id, file, old, new, props:[...], note}. For every selected
mutant a scratch copy of /repo's working tree `emd/` package is made under /dev/shm (never in
/repo or /verif), the textual replacement applied, and the named properties' quick checks run with
EMD_REPO pointing at the copy. Scratch copies are removed afterwards.

  tools/mut.py                 run all mutants
  tools/mut.py C04             run mutants that list C04
  tools/mut.py id1 id2         run the named mutants
  tools/mut.py --tier thorough ...
"""
import json
import os
import shutil
import subprocess
import sys
import tempfile
from concurrent.futures import ThreadPoolExecutor

VERIF = os.path.dirname(os.path.dirname(os.path.abspath(__file__)))
REPO = '/repo'


def run_one(m, tier, seed):
    base = tempfile.mkdtemp(prefix='emdmut_', dir='/dev/shm' if os.path.isdir('/dev/shm') else None)
    try:
        shutil.copytree(os.path.join(REPO, 'emd'), os.path.join(base, 'emd'),
                        ignore=shutil.ignore_patterns('__pycache__', 'tests'))
        edits = m.get('edits') or [{'file': m['file'], 'old': m['old'], 'new': m['new']}]
        for e in edits:
            p = os.path.join(base, e['file'])
            s = open(p).read()
            if s.count(e['old']) < 1:
                return m['id'], {'error': 'pattern not found in %s' % e['file']}
            s = s.replace(e['old'], e['new'], e.get('count', 1))
            open(p, 'w').write(s)
        res = {}
        for pid in m['props']:
            env = dict(os.environ, EMD_REPO=base, VERIF_SEED=str(seed))
            env['VERIF_WORK_SUFFIX'] = os.path.basename(base)
            r = subprocess.run([os.path.join(VERIF, 'check'), pid, tier, '--shards', str(m.get('shards', 4))],
                               capture_output=True, text=True, env=env, cwd=VERIF)
            viol = [ln for ln in r.stdout.splitlines() if ln.startswith('VIOLATION') or ln.startswith('  #')]
            res[pid] = {'exit': r.returncode, 'lines': viol[:4],
                        'tail': r.stdout.strip().splitlines()[-1:] if r.returncode != 1 else []}
        return m['id'], res
    finally:
        shutil.rmtree(base, ignore_errors=True)


def main():
    args = sys.argv[1:]
    tier, seed = 'quick', 0
    if '--tier' in args:
        i = args.index('--tier')
        tier = args[i + 1]
        del args[i:i + 2]
    if '--seed' in args:
        i = args.index('--seed')
        seed = int(args[i + 1])
        del args[i:i + 2]
    muts = json.load(open(os.path.join(VERIF, 'tools', 'mutants.json')))
    if args:
        muts = [m for m in muts if m['id'] in args or any(p in args for p in m['props'])]
        for m in muts:
            sel = [p for p in m['props'] if p in args]
            if sel and m['id'] not in args:
                m['props'] = sel
    caught = missed = 0
    with ThreadPoolExecutor(max_workers=4) as ex:
        for mid, res in ex.map(lambda m: run_one(m, tier, seed), muts):
            if 'error' in res:
                print('%-34s ERROR %s' % (mid, res['error']))
                continue
            for pid, r in res.items():
                ok = r['exit'] == 1
                caught += ok
                missed += (not ok)
                print('%-34s %s %s %s' % (mid, pid, 'CAUGHT' if ok else 'MISSED(exit %d)' % r['exit'],
                                          (r['lines'][1].strip()[:150] if len(r['lines']) > 1 else ' '.join(r['tail'])[:150])))
    print('caught %d, missed %d' % (caught, missed))
    return 1 if missed else 0


if __name__ == '__main__':
    sys.exit(main())
