"""Executable specifications, written from the property statements / docstrings in plain
numpy/scipy. They never call emd internals; where a property itself is phrased in terms of a
public stage function (get_next_imf, interp_envelope) the driver passes that function in."""
import numpy as np
from scipy import interpolate as _interp


# ---------------------------------------------------------------------------------
# extrema / padding / envelopes (C05)

def strict_maxima(x):
    """Indices i with x[i-1] < x[i] > x[i+1] (strict, interior only)."""
    x = np.asarray(x)
    return np.array([i for i in range(1, len(x) - 1) if x[i] > x[i - 1] and x[i] > x[i + 1]], dtype=int)


def count_extrema(x):
    x = np.asarray(x).reshape(-1)
    return len(strict_maxima(x)), len(strict_maxima(-x))


def parabola_vertex(ym, y0, yp, loc):
    """Vertex of the parabola through (loc-1,ym), (loc,y0), (loc+1,yp)."""
    a = (ym + yp) / 2 - y0
    b = (yp - ym) / 2
    dt = -b / (2 * a)
    return loc + dt, y0 + b * dt + a * dt * dt


def detect_extrema(x, mode, parabolic=False):
    x = np.asarray(x, dtype=float).reshape(-1)
    if mode == 'peaks':
        y = x
    elif mode == 'troughs':
        y = -x
    elif mode == 'abs_peaks':
        y = np.abs(x)
    else:
        raise ValueError(mode)
    locs = strict_maxima(y)
    if parabolic and len(locs):
        tl, tv = [], []
        for i in locs:
            t, v = parabola_vertex(y[i - 1], y[i], y[i + 1], i)
            tl.append(t)
            tv.append(v)
        locs, mags = np.array(tl), np.array(tv)
    else:
        mags = y[locs] if len(locs) else np.array([])
        locs = locs.astype(float) if parabolic else locs
    if mode == 'troughs':
        mags = -mags
    return locs, mags


def pad_default(locs, mags, pad_width, n):
    """Default padding of the library's documentation: locations by odd reflection about the
    first / last entry, magnitudes by repeating the edge magnitude (median of 1), repeated until
    the locations reach below 0 and to at least n."""
    locs = np.asarray(locs)
    mags = np.asarray(mags)
    if locs.size < pad_width:
        pad_width = locs.size
    if pad_width == 0:
        return locs, mags
    L = np.pad(locs, pad_width, 'reflect', reflect_type='odd')
    M = np.pad(mags, pad_width, 'median', stat_length=1)
    rounds = 0
    while max(L) < n or min(L) >= 0:
        L = np.pad(L, pad_width, 'reflect', reflect_type='odd')
        M = np.pad(M, pad_width, 'median', stat_length=1)
        rounds += 1
        if rounds > n + 5:
            raise RuntimeError('reference padding did not terminate')
    return L, M


def manual_odd_reflect(locs, w):
    """Independent odd reflection for the case w <= len(locs)-1 (no bouncing needed):
    left = 2*locs[0] - locs[w..1], right = 2*locs[-1] - locs[-2..-w-1]."""
    locs = np.asarray(locs, dtype=float)
    left = 2 * locs[0] - locs[1:w + 1][::-1]
    right = 2 * locs[-1] - locs[-w - 1:-1][::-1]
    return np.concatenate([left, locs, right])


def ref_envelope_from_extrema(locs, mags, n, interp_method):
    """The selected interpolant through (locs, mags) evaluated at the integer sample times 0..n-1."""
    t = np.arange(n)
    if interp_method == 'splrep':
        return _interp.splev(t, _interp.splrep(locs, mags))
    if interp_method in ('pchip', 'mono_pchip'):
        return _interp.PchipInterpolator(locs, mags)(t)
    raise ValueError(interp_method)


MODE_MAP = {'upper': 'peaks', 'lower': 'troughs', 'combined': 'abs_peaks'}


def pad_with_options(locs, mags, pad_width, n, mag_pad_opts=None, loc_pad_opts=None):
    """Padding as documented for get_padded_extrema: the extrema *magnitudes* (the values of the signal at the extrema, with
    their own sign) are extended with np.pad(mode, **mag_pad_opts), the *locations* with np.pad(**loc_pad_opts), repeated
    until the locations reach below 0 and to at least n. Defaults: median of 1 / odd reflection."""
    mo = dict(mag_pad_opts) if mag_pad_opts else {'mode': 'median', 'stat_length': 1}
    lo = dict(loc_pad_opts) if loc_pad_opts else {'mode': 'reflect', 'reflect_type': 'odd'}
    mm, lm = mo.pop('mode'), lo.pop('mode')
    locs, mags = np.asarray(locs), np.asarray(mags)
    w = min(pad_width, locs.size)
    if w == 0:
        return locs, mags
    L, M = np.pad(locs, w, lm, **lo), np.pad(mags, w, mm, **mo)
    rounds = 0
    while max(L) < n or min(L) >= 0:
        L, M = np.pad(L, w, lm, **lo), np.pad(M, w, mm, **mo)
        rounds += 1
        if rounds > n + 5:
            raise RuntimeError('reference padding did not terminate')
    return L, M


def ref_envelope_opts(x, mode='upper', interp_method='splrep', pad_width=2, parabolic_extrema=False, mag_pad_opts=None,
                      loc_pad_opts=None):
    """Envelope from first principles with custom np.pad options (own extrema detection, own padding, scipy interpolant)."""
    x = np.asarray(x, dtype=float).reshape(-1)
    locs, mags = detect_extrema(x, MODE_MAP[mode], parabolic_extrema)
    if len(locs) <= 1:
        return None
    L, M = pad_with_options(locs, mags, pad_width, len(x), mag_pad_opts, loc_pad_opts)
    return ref_envelope_from_extrema(L, M, len(x), interp_method)


def ref_envelope(x, mode='upper', interp_method='splrep', pad_width=2, parabolic=False):
    x = np.asarray(x, dtype=float).reshape(-1)
    locs, mags = detect_extrema(x, MODE_MAP[mode], parabolic)
    if len(locs) <= 1:
        return None
    L, M = pad_default(locs, mags, pad_width, len(x))
    return ref_envelope_from_extrema(L, M, len(x), interp_method)


# ---------------------------------------------------------------------------------
# single-IMF extraction (C04) – iterate model over a supplied envelope function

def ref_next_imf(x, envelope, env_step_size=1, max_iters=1000, stop_method='sd', sd_thresh=.1,
                 rilling_thresh=(0.05, 0.5, 0.05), max_steps=None):
    """Returns (outcome, k, value, trace) where outcome in {'stop','noext','raise'}; k = number
    of iterations performed (1-based); trace = list of per-iteration dicts with the decision
    margins used for the measured guard band. `envelope(p, mode)` returns the envelope or None."""
    p = np.asarray(x, dtype=float).reshape(-1, 1).copy()
    k = 0
    trace = []
    while True:
        if stop_method != 'fixed' and k > max_iters:
            return 'raise', k, None, trace
        if max_steps is not None and k > max_steps:
            return 'toolong', k, None, trace
        k += 1
        u = envelope(p, 'upper')
        lo = envelope(p, 'lower')
        if u is None or lo is None:
            return 'noext', k, p, trace
        avg = np.mean([u, lo], axis=0)[:, None]
        x1 = p - avg
        info = {'k': k}
        if stop_method == 'sd':
            m = np.sum((p - x1) ** 2) / np.sum(p ** 2)
            stop = bool(m < sd_thresh)
            info['margin'] = abs(m - sd_thresh) / sd_thresh
        elif stop_method == 'rilling':
            sd1, sd2, tol = rilling_thresh
            avg_env = (u + lo) / 2
            amp = np.abs(u - lo) / 2
            e = np.abs(avg_env) / amp
            frac = np.mean(e > sd1)
            stop = not (frac > tol or np.any(e > sd2))
            with np.errstate(all='ignore'):
                d1 = np.min(np.abs(e - sd1) / sd1)
                d2 = np.min(np.abs(e - sd2) / sd2)
                d3 = abs(frac - tol) * len(e)  # in units of samples
            info['margin'] = float(min(d1, d2, 1.0 if d3 >= 0.5 else 0.0))
        elif stop_method == 'fixed':
            stop = (k == max_iters)
            info['margin'] = 1.0
        else:
            raise ValueError(stop_method)
        dp = np.abs(np.diff(p[:, 0]))
        scale = np.max(np.abs(p)) or 1.0
        info['tie'] = float(dp.min() / scale) if len(dp) else 1.0
        # decision margin of this iteration's own extrema search; exact ties (difference exactly 0)
        # are not rounding-sensitive and are reported separately
        nz = dp[dp > 0]
        info['tie_in'] = info['tie']
        info['tie_in_nz'] = float(nz.min() / scale) if len(nz) else 1.0
        trace.append(info)
        if stop:
            dx = np.abs(np.diff(x1[:, 0]))
            info['tie'] = min(info['tie'], float(dx.min() / scale) if len(dx) else 1.0)
            return 'stop', k, x1, trace
        p = p - env_step_size * avg


def guard_margin(trace):
    if not trace:
        return 1.0
    return min(min(t['margin'], t['tie']) for t in trace)


def guard_margin_single(trace):
    """Margin for comparing the result of ONE extraction under an exact-tie-preserving transform
    (scaling, time reversal): only decisions taken inside the extraction count (not the ties of the
    returned iterate), and exact ties in the *input* of the first iteration are safe because strict
    comparisons of exactly equal samples are not rounding-sensitive."""
    if not trace:
        return 1.0
    g = 1.0
    for i, t in enumerate(trace):
        g = min(g, t['margin'], t['tie_in_nz'] if i == 0 else t['tie_in'])
    return g
