"""C12 - cycle detection partitions the phase series at its phase wraps.

Oracle: wraps W = {i : |phi[i]-phi[i-1]| > phase_step}; the all-cycles labelling must be the
partition with boundaries {0} u W u {N}, labelled 0..K-1 in temporal order (all -1 when W is
empty); with return_good=True the call must not fail and every labelled run must be exactly one of
those segments, numbered consecutively in temporal order."""
import itertools
import os

import numpy as np

from .. import gens
from ..harness import digest

MANIFEST = {
    'text': 'Held on every call executed: emd.cycles.get_cycle_vector is run on EVERY sequence of length 2..6 (quick) / 2..8 (thorough) over a 5-value phase alphabet x phase_step in {pi, 1.5pi, 1.9pi} (and 0 for length <= 5) x return_good in {False, True} (so every placement of wraps including the first and last sample), on stacked multi-column inputs, and on seeded long synthetic phases with variable, noisy and occasionally reversing frequency; the all-cycles labelling must equal the wrap-delimited partition exactly and good-cycle labelling must never raise and must consist of whole segments numbered consecutively. Exhaustive at the stated bound, sampling beyond. Schedules: the same deterministic calls made from 4-5 threads of one interpreter at once (thread switch every 1-10 microseconds) must reproduce the results obtained alone. A quarter of the shards run in a session that turns Deprecation/Future/UserWarnings into errors.',
    'note': 'Trusted: numpy. Which segments count as good is C13\'s business; here only the partition structure is judged for return_good=True.',
    'technique': 'reference-partition oracle on the real get_cycle_vector, exhaustive small-scope enumeration + seeded random',
}
LOGGER_ON_ODD_SHARDS = True
BUDGET_S = {'quick': 60, 'thorough': 420}
MAXLEN = {'quick': 6, 'thorough': 8}
NRANDOM = {'quick': 1500, 'thorough': 20000}
EXHAUSTIVE = {'quick': True, 'thorough': True}
EXHAUSTIVE_SCOPE = {'quick': 'every sequence of length 2..6 over {0.05,1.4,3.1,4.9,6.2} x 3 phase_step values x return_good',
                    'thorough': 'every sequence of length 2..8 over {0.05,1.4,3.1,4.9,6.2} x 3 phase_step values x return_good'}
RULE = ('exhaustive enumeration of phase sequences over a 5-value alphabet, multi-column stacks of them, and seeded synthetic '
        'phases (6-60 samples per cycle, optional noise and frequency reversals); non-trivial = at least one wrap; distinct by '
        '(sequence, phase_step)')
ASSUMPTIONS = ['phases are in [0, 2pi) so the library does not re-wrap them']

ALPHA = (0.05, 1.4, 3.1, 4.9, 6.2)
STEPS = (np.pi, 1.5 * np.pi, 1.9 * np.pi)
RSTEPS = STEPS + (0.0, 0.5, 2 * np.pi)     # random part: also the extreme thresholds (0: every change of phase is a wrap)


def ref_partition(phi, phase_step):
    """Returns (labels, segments) for the all-cycles labelling."""
    n = len(phi)
    W = [i for i in range(1, n) if abs(phi[i] - phi[i - 1]) > phase_step]
    lab = np.full(n, -1, dtype=int)
    if not W:
        return lab, []
    b = sorted(set([0] + W + [n]))
    segs = [(b[i], b[i + 1]) for i in range(len(b) - 1)]
    for k, (s, e) in enumerate(segs):
        lab[s:e] = k
    return lab, segs


def check(ctx, phi, phase_step, case, tag):
    from emd import cycles as C
    lab, segs = ref_partition(phi, phase_step)
    ctx.case(digest(phi, phase_step), len(segs) > 0)
    ctx.count('sequences:' + tag)
    try:
        out = C.get_cycle_vector(phi.copy(), return_good=False, phase_step=phase_step)
    except Exception as e:
        ctx.violation('all-cycles-exception:%s' % type(e).__name__, 'get_cycle_vector(return_good=False) raised %s: %s' % (type(e).__name__, str(e)[:100]), case)
        return
    out = np.asarray(out)
    if out.shape not in ((len(phi), 1), (len(phi),)):
        ctx.violation('shape', 'returned shape %s for %d samples' % (out.shape, len(phi)), case)
        return
    out = out.reshape(-1)
    if not np.array_equal(out, lab):
        diff = np.where(out != lab)[0]
        key = 'partition'
        if len(diff) and np.all(diff == len(phi) - 1):
            key = 'last-sample-unlabelled' if out[-1] == -1 else 'last-sample'
        elif len(diff) and diff[0] == 0:
            key = 'partition-first-sample'
        ctx.violation(key, 'all-cycles labelling %s differs from the wrap-delimited partition %s (phase %s, phase_step %.3g)'
                      % (out.tolist()[:12], lab.tolist()[:12], np.round(phi, 2).tolist()[:12], phase_step), case)
        return
    ctx.count('partition_ok')
    if segs:
        if segs[-1][0] == len(phi) - 1:
            ctx.count('wrap_on_last_sample')
        if len(segs) > 1 and segs[0][1] == 1:
            ctx.count('wrap_on_second_sample')
    try:
        good = np.asarray(C.get_cycle_vector(phi.copy(), return_good=True, phase_step=phase_step)).reshape(-1)
    except Exception as e:
        key = 'good-cycles-exception:%s' % type(e).__name__
        if segs and segs[-1][0] == len(phi) - 1:
            key += ':wrap-on-last-sample'
        ctx.violation(key, 'get_cycle_vector(return_good=True) raised %s: %s (phase %s)' % (type(e).__name__, str(e)[:100], np.round(phi, 2).tolist()[:12]), case)
        return
    # structure of the good labelling: whole segments, consecutive numbering in temporal order
    k = 0
    ok = len(good) == len(phi)
    if ok:
        for (s, e) in segs:
            v = good[s:e]
            if np.all(v == -1):
                continue
            if np.all(v == k):
                k += 1
            else:
                ok = False
                break
        if not segs and not np.all(good == -1):
            ok = False
        if ok and good.max() != k - 1:
            ok = False
    if not ok:
        ctx.violation('good-structure', 'good-cycle labelling %s is not an order-preserving renumbering of whole wrap-delimited '
                      'segments %s' % (good.tolist()[:14], segs[:6]), case)
        return
    ctx.count('good_structure_ok')


def thread_cases(seed):
    """Cycle detection on long float64 phases with different wrap positions, from different threads at the same time."""
    from emd import cycles as C
    r = np.random.default_rng(seed)
    n = int(gens.pick(r, [50000, 400000, 400000, 400000]))
    calls = []
    for k in range(4):
        per = float(r.uniform(20, 90))
        ph = np.mod(np.cumsum(np.full(n, 2 * np.pi / per) * r.uniform(.8, 1.2, n)) + float(r.uniform(0, 6)), 2 * np.pi)
        calls.append((lambda p, g: (lambda: C.get_cycle_vector(p, return_good=g)))(ph, bool(k % 2)))
    return calls, {'seed': int(seed), 'n': n}


def thread_check(ctx, seed):
    from ..monitors import thread_probe
    calls, tcase = thread_cases(seed)
    return thread_probe(ctx, 'get_cycle_vector (%d samples)' % tcase['n'], calls, 4 if tcase['n'] > 100000 else 12, tcase)


def flag_digests(seed):
    """Labellings of a fixed set of seeded phases (both modes): what an interpreter started with other flags must reproduce."""
    from emd import cycles as C
    r = np.random.default_rng(seed)
    out = []
    for k in range(12):
        p = gens.synthetic_phase(r, ncycles=int(r.integers(1, 9)), noise=float(gens.pick(r, [0, .1])), reversals=bool(k % 3 == 0))
        for g in (False, True):
            out.append(digest(np.asarray(C.get_cycle_vector(p.copy(), return_good=g))))
    return out


def interpreter_flags_probe(ctx, seed):
    """How the interpreter was started is not the caller's input: the same calls under `python -O` and `python -OO` (asserts and
    docstrings stripped) must import and give the same labellings."""
    import json
    import subprocess
    import sys
    from ..harness import VERIF, REPO
    here = flag_digests(seed)
    for flag in ('-O', '-OO'):
        env = dict(os.environ, EMD_REPO=REPO, PYTHONPATH=VERIF)
        case = {'kind': 'flags', 'flag': flag, 'seed': int(seed)}
        ctx.case(digest('flags', flag, seed), True)
        try:
            p = subprocess.run([sys.executable, flag, '-W', 'ignore', '-m', 'emdverif.props.C12', str(seed)], capture_output=True, text=True, timeout=300, env=env, cwd=VERIF)
        except subprocess.TimeoutExpired:
            ctx.count('flags_probe_timeouts')
            continue
        lines = [l for l in p.stdout.splitlines() if l.startswith('DIGESTS ')]
        ctx.count('interpreter_flag_runs')
        if p.returncode != 0 or not lines:
            ctx.violation('fails-under-interpreter-flag:' + flag, 'under `python %s` the library cannot be imported / cycle detection fails: %s'
                          % (flag, (p.stderr or p.stdout).strip().splitlines()[-1][:200] if (p.stderr or p.stdout).strip() else 'no output'), case)
            continue
        if json.loads(lines[-1][8:]) != here:
            ctx.violation('differs-under-interpreter-flag:' + flag, 'cycle detection gives different labellings under `python %s`' % flag, case)
        else:
            ctx.count('labellings_compared_under_interpreter_flags', len(here))


def reload_probe(ctx, rng):
    """Process history: a reference to the routine taken before emd.cycles is reloaded (importlib.reload, what an interactive
    session or an auto-reloading notebook does) keeps working, with its documented defaults."""
    import importlib
    import emd.cycles
    held = emd.cycles.get_cycle_vector
    phis = [gens.synthetic_phase(rng, ncycles=int(rng.integers(2, 9))) for _ in range(5)]
    before = [(np.asarray(held(p.copy())), np.asarray(held(p.copy(), return_good=True))) for p in phis]
    importlib.reload(emd.cycles)
    ctx.count('module_reloads')
    for p, (b0, b1) in zip(phis, before):
        case = {'kind': 'reload', 'phase': p}
        ctx.case(digest(p, 'reload'), True)
        try:
            a0, a1 = np.asarray(held(p.copy())), np.asarray(held(p.copy(), return_good=True))
            f0 = np.asarray(emd.cycles.get_cycle_vector(p.copy()))
        except Exception as e:
            ctx.violation('exception-after-reload:%s' % type(e).__name__, 'get_cycle_vector (reference held from before importlib.reload(emd.cycles)) raised %s: %s'
                          % (type(e).__name__, str(e)[:100]), case)
            return
        if not (np.array_equal(a0, b0) and np.array_equal(a1, b1) and np.array_equal(f0, b0)):
            ctx.violation('changed-after-reload', 'cycle detection gives a different labelling after importlib.reload(emd.cycles)', case)
            return
        ctx.count('calls_through_a_reference_held_across_a_reload', 2)


def run_shard(ctx):
    from emd import cycles as C
    rng = ctx.rng
    if ctx.shard % 4 == 1:
        thread_check(ctx, int(rng.integers(1 << 30)))
    if ctx.shard % 8 == 0:
        interpreter_flags_probe(ctx, int(rng.integers(1 << 30)))
    if ctx.shard % 4 == 3:
        reload_probe(ctx, rng)
        from emd import cycles as C          # (the reloaded module from here on)
    idx = 0
    for L in range(2, MAXLEN[ctx.tier] + 1):
        for seq in itertools.product(ALPHA, repeat=L):
            idx += 1
            if idx % ctx.nshards != ctx.shard:
                continue
            phi = np.array(seq)
            for st in STEPS:
                check(ctx, phi, st, {'kind': 'seq', 'phase': phi, 'phase_step': st}, 'enum')
            if L <= 5:
                check(ctx, phi, 0.0, {'kind': 'seq', 'phase': phi, 'phase_step': 0.0}, 'enum0')
            if idx < 40 and ctx.shard == 0:
                ctx.sample({'phase': list(seq), 'phase_steps': list(STEPS)})
    ctx.count('exhaustive_done')
    if ctx.shard % 8 == 2:
        # size-dependent code paths: a very long exactly periodic phase (a wrap every 64 samples, 300 000 samples) ...
        per = int(gens.pick(rng, [32, 64, 128]))
        phi = np.tile(np.linspace(0.02, 6.25, per), 300000 // per + 1)[:int(rng.integers(290000, 300000))]
        check(ctx, phi, 1.5 * np.pi, {'kind': 'long', 'period': per, 'n': len(phi)}, 'very-long')
        ctx.count('very_long_recordings')
    if ctx.shard % 8 == 5:
        # ... and a phase stored in a narrow integer type with more cycles than that type can count (every sample a wrap)
        phi = np.tile(np.array([0, 6], dtype=np.int16), int(rng.integers(17000, 20000)))
        check(ctx, phi, 1.5 * np.pi, {'kind': 'int16-many-cycles', 'n': len(phi)}, 'very-long')
        ctx.count('very_long_recordings')
    n = NRANDOM[ctx.tier] // ctx.nshards
    for i in range(n):
        if ctx.out_of_time():
            break
        r = rng.random()
        phi = gens.synthetic_phase(rng, noise=(0.0 if r < .4 else float(rng.uniform(0, .3))), reversals=bool(r > .6),
                                   ncycles=(int(rng.integers(100, 400)) if i % 40 == 7 else None))
        if i % 40 == 11:
            phi = np.tile(np.linspace(0.05, 6.2, int(rng.integers(6, 30))), int(rng.integers(3, 200)))    # exactly periodic
        st = float(gens.pick(rng, list(RSTEPS)))
        if i % 40 in (3, 23):
            # a phase stored in half precision (values rounded to float16; 6.28125 is the largest half below 2pi and a legal phase)
            phi = gens.synthetic_phase(rng, ncycles=int(rng.integers(3, 40))).astype(np.float16)
            phi[rng.integers(0, len(phi), 2)] = np.float16(6.28125)
            st = float(gens.pick(rng, [np.pi, 1.5 * np.pi]))
            ctx.count('half_precision_phases')
        if rng.random() < .25:
            phi, _ = gens.relayout(rng, phi, 'strided')     # same values in a strided view
            ctx.count('strided_inputs')
        check(ctx, phi, st, {'kind': 'seq', 'phase': np.array(phi), 'phase_step': st}, 'synthetic')
        if i % 5 == 0:
            # multi-column: column j of the result must equal the result for column j alone
            m = int(rng.integers(2, 4))
            cols = [gens.synthetic_phase(rng, n=len(phi), ncycles=12) for _ in range(m - 1)]
            cols = [c for c in cols if len(c) == len(phi)]
            if rng.random() < .4:
                # a slow / residual component next to the fast ones: a column without any wrap (it simply has no cycles)
                cols.append(np.linspace(float(rng.uniform(0, 1)), float(rng.uniform(2, 5)), len(phi)))
                ctx.count('multicolumn_inputs_with_a_wrap_free_column')
            P = np.stack([phi] + cols, axis=1)
            case = {'kind': 'multi', 'phase': P, 'phase_step': st}
            for rg in (False, True):
                try:
                    out = C.get_cycle_vector(P.copy(), return_good=rg, phase_step=st)
                    ctx.count('multicolumn_calls')
                    for j in range(P.shape[1]):
                        single = np.asarray(C.get_cycle_vector(P[:, j].copy(), return_good=rg, phase_step=st)).reshape(-1)
                        if out.shape != P.shape or not np.array_equal(out[:, j], single):
                            ctx.violation('multicolumn', 'column %d of the multi-column result differs from the single-column result '
                                          '(return_good=%s)' % (j, rg), case)
                            break
                except Exception as e:
                    ctx.violation('multicolumn-exception:%s' % type(e).__name__, 'multi-column input raised %s: %s' % (type(e).__name__, str(e)[:100]), case)


def finalize(agg, tier):
    c = agg['counters']
    r = []
    want = sum(5 ** L for L in range(2, MAXLEN[tier] + 1)) * 3
    if c.get('sequences:enum', 0) != want:
        r.append('enumerated %d (sequence, phase_step) pairs, expected %d' % (c.get('sequences:enum', 0), want))
    for k, need in [('wrap_on_last_sample', 100), ('sequences:synthetic', 500), ('multicolumn_calls', 100), ('good_structure_ok', 1000)]:
        if c.get(k, 0) < need:
            r.append('%s: %d < %d' % (k, c.get(k, 0), need))
    return r


def replay(ctx, case):
    from emd import cycles as C
    if case.get('kind') == 'flags':
        return interpreter_flags_probe(ctx, case['seed'])
    if case.get('kind') == 'reload':
        return reload_probe(ctx, np.random.default_rng(0))
    if case.get('kind') == 'threads':
        for _ in range(5):
            if not thread_check(ctx, case['seed']):
                break
        return
    if case['kind'] == 'long':
        phi = np.tile(np.linspace(0.02, 6.25, case['period']), case['n'] // case['period'] + 1)[:case['n']]
        check(ctx, phi, 1.5 * np.pi, case, 'replay')
        return
    if case['kind'] == 'int16-many-cycles':
        check(ctx, np.tile(np.array([0, 6], dtype=np.int16), case['n'] // 2), 1.5 * np.pi, case, 'replay')
        return
    P = np.asarray(case['phase'], float)
    if case['kind'] == 'seq':
        check(ctx, P, case['phase_step'], case, 'replay')
    else:
        for rg in (False, True):
            out = C.get_cycle_vector(P.copy(), return_good=rg, phase_step=case['phase_step'])
            for j in range(P.shape[1]):
                single = np.asarray(C.get_cycle_vector(P[:, j].copy(), return_good=rg, phase_step=case['phase_step'])).reshape(-1)
                if not np.array_equal(out[:, j], single):
                    ctx.violation('multicolumn', 'column %d differs from single-column result' % j, case)


if __name__ == '__main__':
    # the fresh-interpreter side of interpreter_flags_probe
    import json
    import sys
    from emdverif.harness import bootstrap
    bootstrap()
    print('DIGESTS ' + json.dumps(flag_digests(int(sys.argv[1]))))
