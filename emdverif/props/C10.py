"""C10 - the Hilbert-Huang spectrum bins every sample's energy exactly once.

Oracle: a per-sample brute-force histogram with half-open bins [edge_b, edge_b+1), own time
column, amplitude or amplitude^2, compared with hilberthuang (dense and sparse) and with
hilberthuang_1d (marginal over time per IMF); plus the bin constructors."""
import itertools

import numpy as np

from .. import gens
from ..harness import digest

MANIFEST = {
    'text': 'Held on every spectrum computed: hilberthuang (dense, sparse) and hilberthuang_1d are compared with a brute-force per-sample histogram on EVERY frequency array with up to 3 (quick) / 4 (thorough) samples whose entries are drawn from the edge-hitting pool {every bin edge, the floats just below and above each edge, below the first edge, above the last, negative, 0}, for linear and log bin sets of 1..4 bins, both modes and every [time x IMF] shape, plus seeded random arrays (T<=50, M<=4, 1..24 bins); dense, sparse and marginal forms must agree with the reference and with each other (1e-12 of the total). define_hist_bins(_from_data) are checked for edge count, monotonicity, end points and midpoints. Exhaustive at the stated bound, sampling beyond. Schedules: the same deterministic calls made from 4-5 threads of one interpreter at once (thread switch every 1-10 microseconds) must reproduce the results obtained alone. Returned spectra (while the caller refills its input arrays) are held untouched and re-read after later calls. A quarter of the shards run in a session that turns Deprecation/Future/UserWarnings into errors.',
    'note': 'Trusted: numpy/scipy.sparse. A NaN frequency estimate belongs to no bin (the other samples are binned as usual); big-endian amplitude arrays are not generated (scipy.sparse refuses them).',
    'technique': 'brute-force reference histogram vs the real spectra, exhaustive edge-hitting enumeration + seeded random',
}
LOGGER_ON_ODD_SHARDS = True
BUDGET_S = {'quick': 60, 'thorough': 420}
MAXK = {'quick': 3, 'thorough': 4}
NRANDOM = {'quick': 3000, 'thorough': 40000}
EXHAUSTIVE = {'quick': True, 'thorough': True}
EXHAUSTIVE_SCOPE = {'quick': 'all arrays with T*M <= 3 over the edge-hitting pool x {linear, log} x 1..4 bins x {energy, amplitude} x all shapes',
                    'thorough': 'all arrays with T*M <= 4 over the edge-hitting pool x {linear, log} x 1..4 bins x {energy, amplitude} x all shapes'}
RULE = ('exhaustive enumeration over the edge-hitting value pool (3 values per edge + 4 out-of-range/zero/negative values) for '
        'every array shape with T*M up to the bound, then seeded random arrays; non-trivial = at least one sample in range '
        'and at least one sample out of range or exactly on an edge; distinct by (frequencies, edges, mode, shape)')
ASSUMPTIONS = ['amplitudes are fixed distinct non-zero values so that a misplaced sample always changes the result']

AMPS = np.array([1.0, 2.5, -0.75, 4.0, 0.5, 3.25, -1.5, 2.0])


def brute(infr, inam, edges, mode):
    infr = np.asarray(infr, dtype=float)
    T, M = infr.shape
    nb = len(edges) - 1
    H = np.zeros((nb, T))
    H1 = np.zeros((nb, M))
    for t in range(T):
        for m in range(M):
            f = infr[t, m]
            a = inam[t, m] ** 2 if mode == 'energy' else inam[t, m]
            for b in range(nb):
                if edges[b] <= f < edges[b + 1]:
                    H[b, t] += a
                    H1[b, m] += a
                    break
    return H, H1


def brute_fast(infr, inam, edges, mode):
    infr = np.asarray(infr, dtype=float)
    T, M = infr.shape
    nb = len(edges) - 1
    b = (infr[:, :, None] >= edges[None, None, :]).sum(axis=2) - 1
    b[(infr < edges[0]) | (infr >= edges[-1])] = -1
    a = inam ** 2 if mode == 'energy' else inam
    H = np.zeros((nb, T))
    H1 = np.zeros((nb, M))
    ok = b >= 0
    tt = np.broadcast_to(np.arange(T)[:, None], (T, M))
    mm = np.broadcast_to(np.arange(M)[None, :], (T, M))
    np.add.at(H, (b[ok], tt[ok]), a[ok])
    np.add.at(H1, (b[ok], mm[ok]), a[ok])
    return H, H1


def pool(edges):
    vals = []
    for e in edges:
        vals += [np.nextafter(e, -np.inf), e, np.nextafter(e, np.inf)]
    lo, hi = edges[0], edges[-1]
    vals += [lo - 0.37 * (hi - lo) - .1, hi + 0.41 * (hi - lo) + .1, -1.5, 0.0]
    return np.array(vals)


def compare(ctx, infr, inam, edges, mode, case, tag, e_given=None):
    from emd import spectra as SP
    H, H1 = brute(infr, inam, edges, mode) if infr.size <= 4000 else brute_fast(infr, inam, edges, mode)
    tot = np.abs(inam ** 2 if mode == 'energy' else inam).sum() or 1.0
    tol = 1e-12 * tot
    # per-cell tolerance: what lands in a cell is judged against the size of that cell's own content, so that a small
    # contribution next to a huge one elsewhere in the array cannot hide
    Ha, H1a = (brute(infr, np.abs(inam), edges, mode) if infr.size <= 4000 else brute_fast(infr, np.abs(inam), edges, mode))
    tolH, tolH1 = 1e-12 * Ha + 1e-300, 1e-12 * H1a + 1e-300
    infr64 = np.asarray(infr, dtype=float)
    inr = (infr64 >= edges[0]) & (infr64 < edges[-1])
    onedge = np.isin(infr64, edges)
    ctx.case(digest(infr, inam, edges, mode), bool(inr.any() and ((~inr).any() or onedge.any())))
    f0, a0 = infr.copy(), inam.copy()
    # the bin edges as an array, or (every fifth case) as the list / tuple a caller may equally well write down
    form = ctx.evaluations % 5
    e_arg = edges if form > 1 else (list(map(float, edges)) if form == 0 else tuple(map(float, edges)))
    if e_given is not None:
        e_arg, form = e_given, 9
        ctx.count('edges_passed_as_integers_in_a_' + type(e_given).__name__)
    if form <= 1:
        ctx.count('edges_passed_as_' + ('list' if form == 0 else 'tuple'))
    if ctx.evaluations % 4 == 1:
        # everything by keyword, in an order of the caller's choosing (a sorted options dictionary, for instance)
        kws = [('freq_edges', e_arg), ('inam', inam), ('infr', infr), ('mode', mode)]
        dense = SP.hilberthuang(**dict(kws))
        sp = SP.hilberthuang(**dict(kws[::-1] + [('return_sparse', True)]))
        one = SP.hilberthuang_1d(**dict([kws[1], kws[0], kws[3], kws[2]]))
        ctx.count('calls_with_all_arguments_by_keyword')
    else:
        dense = SP.hilberthuang(infr, inam, e_arg, mode=mode)
        sp = SP.hilberthuang(infr, inam, e_arg, mode=mode, return_sparse=True)
        one = SP.hilberthuang_1d(infr, inam, e_arg, mode=mode)
    ctx.count('spectra_compared')
    if dense.shape != H.shape:
        ctx.violation('hht-shape', 'hilberthuang returned shape %s, expected [bins x time] = %s' % (dense.shape, H.shape), case)
        return
    if np.any(np.abs(dense - H) > tolH):
        below = bool((infr < edges[0]).any())
        b, t = np.unravel_index(np.argmax(np.abs(dense - H)), H.shape)
        key = 'hht-dense'
        if below and (H.shape[0] == 1 or np.abs(dense[1:] - H[1:]).max() <= tol):
            key = 'hht-below-range-in-first-bin'
        elif (infr >= edges[-1]).any() and (H.shape[0] == 1 or np.abs(dense[:-1] - H[:-1]).max() <= tol):
            key = 'hht-above-range-in-last-bin'
        elif onedge.any():
            key = 'hht-edge-assignment'
        ctx.violation(key, 'dense spectrum differs from the per-sample histogram at bin %d, time %d: got %.4g, expected %.4g '
                      '(edges %s, freqs %s, mode %s)' % (b, t, dense[b, t], H[b, t], np.round(edges, 4).tolist(),
                                                        np.round(infr.reshape(-1), 4).tolist()[:8], mode), case)
        return
    spd = sp.toarray() if hasattr(sp, 'toarray') else np.asarray(sp)
    if spd.shape != H.shape or np.any(np.abs(spd - H) > tolH):
        ctx.violation('hht-sparse', 'sparse spectrum differs from the per-sample histogram / dense form', case)
        return
    if one.shape != H1.shape:
        ctx.violation('hht1d-shape', 'hilberthuang_1d returned shape %s, expected [bins x imfs] = %s' % (one.shape, H1.shape), case)
        return
    if np.any(np.abs(one - H1) > tolH1):
        key = 'hht1d' + ('-edge-assignment' if onedge.any() else '')
        ctx.violation(key, 'hilberthuang_1d differs from the per-IMF marginal histogram (edges %s, freqs %s)'
                      % (np.round(edges, 4).tolist(), np.round(infr.reshape(-1), 4).tolist()[:8]), case)
        return
    intot = (inam ** 2 if mode == 'energy' else inam)[inr].sum()
    if abs(dense.sum() - intot) > tol or abs(one.sum() - intot) > tol:
        ctx.violation('hht-total', 'spectrum total %.6g differs from the total in-range %s %.6g' % (dense.sum(), mode, intot), case)
        return
    if not (np.array_equal(f0, infr, equal_nan=True) and np.array_equal(a0, inam, equal_nan=True)):
        ctx.violation('hht-mutates-input', 'a spectrum routine modified its input arrays', case)
        return
    if infr.flags.writeable and inam.flags.writeable:
        # the arrays are the caller's: it may refill them for the next recording while it still holds the earlier spectra
        keep = (dense.copy(), spd.copy(), one.copy())
        inam[...] = 7.5
        infr[...] = edges[0]
        changed = [n for n, a, b in (('dense', dense, keep[0]), ('sparse', sp.toarray() if hasattr(sp, 'toarray') else np.asarray(sp), keep[1]),
                                     ('1d', one, keep[2])) if not np.array_equal(a, b)]
        inam[...] = a0
        infr[...] = f0
        ctx.count('results_checked_after_caller_refilled_its_arrays')
        if changed:
            ctx.violation('hht-result-aliases-input', 'the %s spectrum changed when the caller overwrote its own frequency / amplitude arrays after the '
                          'call (the result shares memory with an input)' % '/'.join(changed), case)
            return
    ctx.count('agree:' + tag)
    if (infr < edges[0]).any():
        ctx.count('with_below_range')
    if (infr >= edges[-1]).any():
        ctx.count('with_at_or_above_range')
    if onedge.any():
        ctx.count('with_value_on_edge')


relayout = gens.relayout


def shapes_for(k):
    return [(T, k // T) for T in range(1, k + 1) if k % T == 0]


def huge_sparse(ctx, rng, seed=None):
    """A long recording with many narrow bins, sparse output: time index x number of bins exceeds 2**31 (a dense array of that
    shape would need > 16 GB, which is what return_sparse is for). Judged on per-bin totals, the grand total and sampled cells."""
    from emd import spectra as SP
    seed = int(rng.integers(1 << 30)) if seed is None else seed
    r = np.random.default_rng(seed)
    T, M, nb = int(r.integers(720000, 760000)), 2, int(r.integers(3000, 3200))
    edges = np.linspace(0.0, 120.0, nb + 1)
    infr = r.uniform(-3, 125, (T, M))
    inam = r.uniform(.1, 3, (T, M))
    mode = gens.pick(r, ['energy', 'amplitude'])
    case = {'kind': 'huge-sparse', 'seed': seed}
    ctx.case(digest('huge-sparse', seed), True)
    ctx.count('huge_sparse_spectra')
    try:
        sp = SP.hilberthuang(infr, inam, edges, mode=mode, return_sparse=True)
    except Exception as e:
        ctx.violation('exception:%s:huge-sparse' % type(e).__name__, 'hilberthuang(return_sparse=True) on %d samples x %d bins raised %s: %s'
                      % (T, nb, type(e).__name__, str(e)[:100]), case)
        return
    a = inam ** 2 if mode == 'energy' else inam
    b = np.floor((infr - edges[0]) / (edges[1] - edges[0])).astype(np.int64)
    b = np.searchsorted(edges, infr, side='right') - 1          # exact half-open bins
    ok = (infr >= edges[0]) & (infr < edges[-1])
    per_bin = np.bincount(b[ok], weights=a[ok], minlength=nb)[:nb]
    got = np.asarray(sp.sum(axis=1)).reshape(-1)
    if sp.shape != (nb, T) or np.abs(got - per_bin).max() > 1e-9 * per_bin.max():
        ctx.violation('hht-sparse:huge', 'sparse spectrum of %d samples x %d bins: shape %s, per-bin totals differ from the per-sample histogram by up to %.3g'
                      % (T, nb, sp.shape, np.abs(got - per_bin).max() if sp.shape == (nb, T) else np.nan), case)
        return
    csr = sp.tocsr()
    for t in [int(v) for v in r.integers(T - 20000, T, 40)] + [T - 1, 0]:
        for m in range(M):
            if ok[t, m]:
                want = sum(a[t, mm] for mm in range(M) if ok[t, mm] and b[t, mm] == b[t, m])
                if abs(csr[b[t, m], t] - want) > 1e-9 * want:
                    ctx.violation('hht-sparse:huge', 'sparse spectrum: cell (bin %d, time %d) holds %.6g, the samples in it sum to %.6g' % (b[t, m], t, csr[b[t, m], t], want), case)
                    return


def thread_probe(ctx, rng):
    """Several threads of one interpreter computing spectra of same-shaped, different recordings at the same time: each must get
    what it gets when running alone (the interpreter is made to switch threads every 10 microseconds)."""
    import sys
    import threading
    from emd import spectra as SP
    T, M, K = int(gens.pick(rng, [50, 200, 2000, 20000])), int(rng.integers(1, 4)), 4
    edges, _ = SP.define_hist_bins(1.0, 20.0, int(rng.integers(3, 30)), scale='linear')
    mode = gens.pick(rng, ['energy', 'amplitude'])
    seeds = [int(s) for s in rng.integers(1 << 30, size=K)]

    def inputs(s):
        r = np.random.default_rng(s)
        return r.uniform(-2, 25, (T, M)), r.uniform(.1, 3, (T, M))

    def run(s):
        f, a = inputs(s)
        return (SP.hilberthuang(f, a, edges, mode=mode), SP.hilberthuang(f, a, edges, mode=mode, return_sparse=True).toarray(),
                SP.hilberthuang_1d(f, a, edges, mode=mode))
    alone = [run(s) for s in seeds]
    reps = 300 if T <= 2000 else 40
    bad = []

    def worker(k):
        for _ in range(reps):
            try:
                got = run(seeds[k])
                if not all(np.array_equal(g, w) for g, w in zip(got, alone[k])):
                    bad.append('thread %d got a different spectrum than when running alone' % k)
                    return
            except Exception as e:
                bad.append('thread %d: %s: %s' % (k, type(e).__name__, str(e)[:80]))
                return
    old = sys.getswitchinterval()
    sys.setswitchinterval(1e-5)
    try:
        th = [threading.Thread(target=worker, args=(k,)) for k in range(K)]
        for t in th:
            t.start()
        for t in th:
            t.join()
    finally:
        sys.setswitchinterval(old)
    ctx.count('concurrent_thread_calls', K * reps)
    ctx.case(digest('threads', T, M, seeds, mode), True)
    if bad:
        ctx.violation('threads', 'hilberthuang called from %d threads at once on same-shaped recordings (%d x %d): %s' % (K, T, M, bad[0]),
                      {'kind': 'threads', 'T': T, 'M': M, 'seeds': seeds, 'mode': mode, 'nbins': len(edges) - 1})


def run_shard(ctx):
    from emd import spectra as SP
    rng = ctx.rng
    if ctx.shard % 2 == 0:
        thread_probe(ctx, rng)
    if ctx.shard % 8 == 5:
        huge_sparse(ctx, rng)
    for ed in [(0, 5, 10), (1, 4, 9, 12), (2, 30), (0, 3, 6, 9, 12), [0, 5, 10], np.array([0, 5, 10])]:
        # bin edges written down as whole numbers, in any container
        T, M = int(rng.integers(5, 60)), int(rng.integers(1, 4))
        infr, inam = rng.uniform(-2, 14, (T, M)), rng.uniform(.1, 3, (T, M))
        for mode in ('energy', 'amplitude'):
            case = {'kind': 'hht', 'infr': infr, 'inam': inam, 'edges': np.asarray(ed, float), 'mode': mode, 'edge_form': type(ed).__name__}
            try:
                compare(ctx, infr.copy(), inam.copy(), np.asarray(ed, dtype=float), mode, case, 'int-edges', e_given=ed)
            except Exception as e:
                ctx.violation('exception:%s' % type(e).__name__, 'spectrum routine raised %s: %s (edges %r)' % (type(e).__name__, str(e)[:100], ed), case)
    # random part
    n = NRANDOM[ctx.tier] // ctx.nshards
    for i in range(n):
        if ctx.out_of_time():
            break
        T, M = (int(rng.integers(1, 51)) if rng.random() > .02 else int(rng.integers(1000, 4000))), int(rng.integers(1, 5))
        nb = int(rng.integers(1, 25)) if rng.random() < .8 else int(rng.integers(25, 300))
        if i == 0 and ctx.shard % 4 == 0:
            T, M = int(rng.integers(270000, 300000)), 2          # one very long recording per four shards
            ctx.count('very_long_recordings')
        scale = gens.pick(rng, ['linear', 'log'])
        lo = float(rng.uniform(.5, 5))
        hi = lo + float(rng.uniform(1, 40))
        edges, centres = SP.define_hist_bins(lo, hi, nb, scale=scale)
        check_bins(ctx, edges, centres, lo, hi, nb, scale)
        infr = rng.uniform(lo - .3 * (hi - lo), hi + .3 * (hi - lo), (T, M))
        mask = rng.random((T, M))
        infr[mask < .1] = rng.choice(edges, int((mask < .1).sum()))
        infr[(mask >= .1) & (mask < .15)] *= -1
        inam = rng.uniform(.1, 3, (T, M))
        if rng.random() < .3:
            inam[rng.integers(0, T), :] = 0.0
        if rng.random() < .15:
            inam = inam * 10.0 ** rng.integers(-9, 10, (T, M))      # amplitudes over many decades within one array
            ctx.count('wide_dynamic_range_cases')
        if T > 100000:
            infr[T // 3:2 * T // 3] = hi + 1.0                       # a long stretch with nothing in range
        mode = gens.pick(rng, ['energy', 'amplitude'])
        if rng.random() < .1 and T < 100000:
            infr[rng.integers(0, T, 2), rng.integers(0, M, 2)] = np.nan      # blanked frequency estimates: in no bin
            ctx.count('cases_with_nan_frequencies')
        if rng.random() < .12:
            # the unit of frequency is the caller's: the same recording and bins in Hz for very slow or very fast processes
            u = float(gens.pick(rng, [1e-9, 1e-6, 1e6]))
            infr, edges = infr * u, edges * u
            ctx.count('cases_in_other_frequency_units')
        # "all frequency/amplitude arrays": memory layout and frequency dtype are the caller's business
        fr = rng.random()
        if fr < .15:
            infr = infr.astype(np.float32)   # (integer-typed frequency arrays are not generated: hilberthuang_1d cannot mark
            #                                   out-of-range entries of an integer array as NaN; instantaneous frequencies are floats)
        infr, lay1 = relayout(rng, infr)
        inam, lay2 = relayout(rng, inam, native=True)     # (scipy.sparse refuses non-native byte order: not the property's business)
        ctx.count('layout:%s/%s' % (lay1, lay2))
        ctx.count('freq_dtype:%s' % infr.dtype)
        case = {'kind': 'hht', 'infr': infr, 'inam': inam, 'edges': edges, 'mode': mode, 'layouts': [lay1, lay2], 'freq_dtype': str(infr.dtype)}
        try:
            compare(ctx, infr, inam, edges, mode, case, 'random')
        except Exception as e:
            ctx.violation('exception:%s' % type(e).__name__, 'spectrum routine raised %s: %s' % (type(e).__name__, str(e)[:120]), case)
        if i % 10 == 0:
            X = rng.uniform(.5, 50, int(rng.integers(4, 400)))
            nbd = gens.pick(rng, [None, 1, 3, 10])
            e2, c2 = SP.define_hist_bins_from_data(X, nbins=nbd, scale=scale)
            check_bins(ctx, e2, c2, X.min(), X.max(), nbd if nbd is not None else int(np.sqrt(len(X))), scale, tag='from_data')

    idx = 0
    for scale in ('linear', 'log'):
        for nb in range(1, 5):
            edges, centres = SP.define_hist_bins(1.0, 9.0 if scale == 'linear' else 16.0, nb, scale=scale)
            vals = pool(edges)
            for k in range(1, MAXK[ctx.tier] + 1):
                for combo in itertools.product(range(len(vals)), repeat=k):
                    idx += 1
                    if idx % ctx.nshards != ctx.shard:
                        continue
                    fr = vals[list(combo)]
                    for shp in shapes_for(k):
                        infr = fr.reshape(shp)
                        inam = AMPS[:k].reshape(shp)
                        for mode in ('energy', 'amplitude'):
                            case = {'kind': 'hht', 'infr': infr, 'inam': inam, 'edges': edges, 'mode': mode}
                            try:
                                compare(ctx, infr.copy(), inam.copy(), edges, mode, case, 'enum')
                            except Exception as e:
                                ctx.case(digest(infr, edges, mode, 'exc'), False)
                                ctx.violation('exception:%s' % type(e).__name__, 'spectrum routine raised %s: %s' % (type(e).__name__, str(e)[:120]), case)
                    if idx < 30 and ctx.shard == 0:
                        ctx.sample({'edges': np.round(edges, 4), 'freqs': fr, 'shapes': shapes_for(k)})
    ctx.count('exhaustive_done')

def check_bins(ctx, edges, centres, lo, hi, nb, scale, tag='define'):
    case = {'kind': 'bins', 'lo': lo, 'hi': hi, 'nbins': nb, 'scale': scale}
    ctx.count('bin_sets_checked:' + tag)
    ok = (len(edges) == nb + 1 and len(centres) == nb and np.all(np.diff(edges) > 0)
          and abs(edges[0] - lo) <= 1e-12 * abs(lo) and abs(edges[-1] - hi) <= 1e-12 * abs(hi)
          and np.allclose(centres, (edges[:-1] + edges[1:]) / 2, rtol=1e-13, atol=0))
    if ok and scale == 'linear':
        ok = np.allclose(np.diff(edges), (hi - lo) / nb, rtol=1e-9)
    if ok and scale == 'log':
        ok = np.allclose(np.diff(np.log(edges)), np.log(hi / lo) / nb, rtol=1e-9)
    if not ok:
        ctx.violation('bins:' + tag, 'bin construction wrong for [%g, %g], %d bins, %s: edges %s centres %s'
                      % (lo, hi, nb, scale, np.round(edges, 4).tolist()[:6], np.round(centres, 4).tolist()[:6]), case)


def finalize(agg, tier):
    c = agg['counters']
    r = []
    if c.get('exhaustive_done', 0) < 1:
        r.append('enumeration incomplete')
    for k in ['with_below_range', 'with_at_or_above_range', 'with_value_on_edge', 'agree:random', 'bin_sets_checked:from_data',
              'results_checked_after_caller_refilled_its_arrays', 'concurrent_thread_calls']:
        if c.get(k, 0) < 50:
            r.append('%s: only %d' % (k, c.get(k, 0)))
    return r


def replay(ctx, case):
    if case['kind'] == 'huge-sparse':
        return huge_sparse(ctx, None, seed=case['seed'])
    if case['kind'] == 'threads':
        for _ in range(5):
            thread_probe(ctx, np.random.default_rng(case['seeds'][0]))
        return
    if case['kind'] == 'hht':
        infr = np.asarray(case['infr']).astype(case.get('freq_dtype', 'float64'))
        inam = np.asarray(case['inam'], float)
        if case.get('layouts'):
            infr, _ = relayout(None, infr, case['layouts'][0])
            inam, _ = relayout(None, inam, case['layouts'][1])
        compare(ctx, infr, inam, np.asarray(case['edges'], float), case['mode'], case, 'replay')
    else:
        from emd import spectra as SP
        e, c = SP.define_hist_bins(case['lo'], case['hi'], case['nbins'], scale=case['scale'])
        check_bins(ctx, e, c, case['lo'], case['hi'], case['nbins'], case['scale'])
