"""C17 - feature matching returns a valid one-to-one pairing.

Oracle (post-condition on the real kdt_match): equally long index lists, no repeats in either, all
in range, every pair within the distance bound and within the K nearest neighbours of its x row
(brute-force distances, ties allowed); no exception for K = 1..15. Non-vacuity: an x row whose
strictly nearest neighbour is nobody else's nearest neighbour has a unique admissible neighbour and
must be matched (tie-free data only)."""
import numpy as np

from .. import gens
from ..harness import digest, quiet

MANIFEST = {
    'text': 'Held on every call executed: emd.cycles.kdt_match is run on seeded feature sets (1-4 features, 1-200 rows each, arbitrary row order, continuous and integer-valued with exact ties, 1-d and 2-d inputs) x K = 1..15 (including K larger than the candidate set) x distance bounds {inf, moderate, tight}; the returned pairing is checked for equal lengths, injectivity on both sides, index range, brute-force K-nearest-neighbour membership and the distance bound, and rows with an uncontested strictly-nearest neighbour must be present. Sampling, not proof. Schedules: the same deterministic calls made from 4-5 threads of one interpreter at once (thread switch every 1-10 microseconds) must reproduce the results obtained alone. A quarter of the shards run in a session that turns Deprecation/Future/UserWarnings into errors.',
    'note': 'Trusted: numpy (brute-force distances). The KD-tree itself is scipy\'s.',
    'technique': 'runtime post-condition monitor on the real kdt_match with brute-force distance oracle, seeded random workload',
}
LOGGER_ON_ODD_SHARDS = True
BUDGET_S = {'quick': 60, 'thorough': 360}
NCASES = {'quick': 10000, 'thorough': 100000}
RULE = ('seeded random feature arrays x K x bound; non-trivial = both sets have >= 2 rows and at least one pair was returned; '
        'distinct by sha1 of (x, y, K, bound)')
ASSUMPTIONS = ['ties are judged with a 1e-12 relative slack on distances']


def gen_case(rng):
    nf = int(rng.integers(1, 5))
    nx = int(gens.pick(rng, [1, 2, 3, 5, 10, 30, 100, 200, int(rng.integers(1, 201))]))
    ny = int(gens.pick(rng, [1, 2, 3, 5, 10, 30, 100, 200, int(rng.integers(1, 201))]))
    ties = bool(rng.random() < .35)
    if ties:
        x = rng.integers(0, 6, (nx, nf)).astype(float)
        y = rng.integers(0, 6, (ny, nf)).astype(float)
    else:
        x = rng.standard_normal((nx, nf))
        y = rng.standard_normal((ny, nf)) * rng.uniform(.5, 2)
        if rng.random() < .3:
            y = np.sort(y, axis=0)  # sorted column order is the easy case; most are unsorted
    if nf >= 2 and rng.random() < .1:
        y[:, int(rng.integers(nf))] = float(rng.uniform(-2, 2))       # a feature that is the same for every candidate
    r3 = rng.random()
    if r3 < .15:
        x, y = np.asfortranarray(x), np.asfortranarray(y)
    elif r3 < .25:
        x, y = x.astype(np.float32), y.astype(np.float32)
    oned = nf == 1 and rng.random() < .5
    if oned:
        x, y = x[:, 0], y[:, 0]
    K = int(rng.integers(1, 16))
    bound = gens.pick(rng, [np.inf, np.inf, 1.0, 0.3, 0.05])
    if rng.random() < .12:
        # integer-typed features (sample indices, counts): unsigned, or a narrow signed type used over its whole range
        dt = gens.pick(rng, [np.uint8, np.uint16, np.int16, np.int8])
        lo, hi = (0, np.iinfo(dt).max) if np.dtype(dt).kind == 'u' else (np.iinfo(dt).min + 1, np.iinfo(dt).max)
        x = rng.integers(lo, hi, x.shape, endpoint=True).astype(dt)
        y = rng.integers(lo, hi, y.shape, endpoint=True).astype(dt)
        bound = float(np.inf if rng.random() < .5 else (hi - lo) / 8.0)
        ties = True          # (integer features: exact ties in distance are possible, the uncontested-neighbour rule does not apply)
    same = bool(rng.random() < .06)      # the very same array object as both feature sets (every row then has itself as its nearest candidate)
    return {'kind': 'kdt', 'x': x, 'y': (x if same else y), 'K': K, 'bound': float(bound), 'ties': ties, 'positional': bool(rng.random() < .3), 'same_object': same}


def check(ctx, case):
    from emd import cycles as C
    x, y, K, bound = case['x'], case['y'], case['K'], case['bound']
    if case.get('same_object'):
        y = x
        ctx.count('calls_with_the_same_object_as_both_sets')
    X = np.asarray(x[:, None] if x.ndim == 1 else x, dtype=float)
    Y = np.asarray(y[:, None] if y.ndim == 1 else y, dtype=float)
    dig = digest(x, y, K, bound)
    x0, y0 = x.copy(), y.copy()
    try:
        with quiet():
            if case.get('positional'):
                xi, yi = C.kdt_match(x, y, K, bound)          # the documented argument order, by position
            else:
                xi, yi = C.kdt_match(x, y, K=K, distance_upper_bound=bound)
    except Exception as e:
        ctx.case(dig, False)
        key = 'exception:%s' % type(e).__name__ + (':K=1' if K == 1 else '')
        ctx.violation(key, 'kdt_match raised %s: %s (K=%d, x %s, y %s)' % (type(e).__name__, str(e)[:100], K, x.shape, y.shape), case)
        return
    xi, yi = np.asarray(xi), np.asarray(yi)
    ctx.case(dig, len(X) >= 2 and len(Y) >= 2 and len(xi) > 0)
    ctx.count('calls')
    ctx.count('K=%d' % K)
    ctx.count('ties' if case['ties'] else 'tie_free')
    if case.get('positional'):
        ctx.count('positional_calls')
    if K > len(Y):
        ctx.count('K_exceeds_candidates')
    if xi.shape != yi.shape or xi.ndim != 1:
        ctx.violation('lengths', 'index lists have shapes %s and %s' % (xi.shape, yi.shape), case)
        return
    if len(xi) and (xi.min() < 0 or xi.max() >= len(X) or yi.min() < 0 or yi.max() >= len(Y)):
        ctx.violation('range', 'index out of range: x in [%d,%d] of %d, y in [%d,%d] of %d' % (xi.min(), xi.max(), len(X), yi.min(), yi.max(), len(Y)), case)
        return
    if len(set(xi.tolist())) != len(xi):
        ctx.violation('duplicate-x', 'a row of x appears twice in the matching', case)
        return
    if len(set(yi.tolist())) != len(yi):
        u, cnt = np.unique(yi, return_counts=True)
        ctx.violation('duplicate-y', 'row %d of y is matched to %d different rows of x (%d of %d y indices repeated)'
                      % (u[np.argmax(cnt)], cnt.max(), int((cnt > 1).sum()), len(yi)), case)
        return
    D = np.sqrt(((X[:, None, :] - Y[None, :, :]) ** 2).sum(axis=2))
    for a, b in zip(xi, yi):
        d = D[a, b]
        if d > bound * (1 + 1e-12):
            ctx.violation('beyond-bound', 'matched pair (%d,%d) is %.4g apart, bound %.4g' % (a, b, d, bound), case)
            return
        kth = np.sort(D[a])[min(K, len(Y)) - 1]
        if d > kth * (1 + 1e-12) + 1e-300:
            ctx.violation('not-in-knn', 'y row %d (distance %.4g) is not among the %d nearest neighbours of x row %d (K-th distance %.4g)'
                          % (b, d, K, a, kth), case)
            return
    ctx.count('pairs_checked', len(xi))
    if len(xi):
        ctx.count('calls_with_matches')
    # non-vacuity on tie-free data
    if not case['ties'] and len(Y) >= 1:
        order = np.argsort(D, axis=1)
        nn = order[:, 0]
        d1 = D[np.arange(len(X)), nn]
        d2 = D[np.arange(len(X)), order[:, 1]] if len(Y) > 1 else np.full(len(X), np.inf)
        u, cnt = np.unique(nn, return_counts=True)
        lone = set(u[cnt == 1].tolist())
        matched = dict(zip(xi.tolist(), yi.tolist()))
        for a in range(len(X)):
            if nn[a] in lone and d1[a] <= bound * (1 - 1e-9) and d1[a] < d2[a] * (1 - 1e-9):
                ctx.count('uncontested_rows')
                if a not in matched:
                    ctx.violation('omits-uncontested', 'x row %d has an uncontested strictly-nearest neighbour y row %d (distance %.4g) '
                                  'but is missing from the matching (K=%d)' % (a, nn[a], d1[a], K), case)
                    return
                if matched[a] != nn[a]:
                    ctx.violation('uncontested-mismatch', 'x row %d should be paired with its uncontested nearest neighbour %d, got %d'
                                  % (a, nn[a], matched[a]), case)
                    return
    if not (np.array_equal(x0, x) and np.array_equal(y0, y)):
        ctx.violation('mutates-input', 'kdt_match modified its input arrays', case)


def thread_cases(seed):
    """Matching of equally sized feature sets with different neighbour counts and distance bounds, from different threads at once."""
    from emd import cycles as C
    r = np.random.default_rng(seed)
    nx, ny, nf = int(gens.pick(r, [60, 200])), int(gens.pick(r, [150, 400])), int(r.integers(1, 4))
    calls = []
    for k, (K, bound) in enumerate([(15, np.inf), (4, 0.05), (15, 0.3), (8, np.inf)]):
        x, y = r.standard_normal((nx, nf)), r.standard_normal((ny, nf))
        calls.append((lambda a, b, kk, bb: (lambda: tuple(np.asarray(v) for v in C.kdt_match(a.copy(), b.copy(), K=kk, distance_upper_bound=bb))))(x, y, K, bound))
    return calls, {'seed': int(seed), 'nx': nx, 'ny': ny}


def thread_check(ctx, seed):
    from ..monitors import thread_probe
    from ..harness import quiet
    calls, tcase = thread_cases(seed)
    with quiet():
        return thread_probe(ctx, 'kdt_match (%d x %d candidates)' % (tcase['nx'], tcase['ny']), calls, 40, tcase, interval=1e-6)


def run_shard(ctx):
    rng = ctx.rng
    if ctx.shard % 2 == 1:
        thread_check(ctx, int(rng.integers(1 << 30)))
    n = NCASES[ctx.tier] // ctx.nshards
    for i in range(n):
        if ctx.out_of_time():
            break
        case = gen_case(rng)
        check(ctx, case)
        if i % 4 == 0 and case['y'].ndim == 2 and len(case['y']) >= 2:
            # history: the caller keeps the candidate array and overwrites it in place before the next call
            ybuf = case['y']
            for rep in range(2):
                if rep == 0:
                    ybuf[:] = ybuf[::-1].copy()
                else:
                    ybuf[:] = rng.standard_normal(ybuf.shape) if not case['ties'] else rng.integers(0, 6, ybuf.shape)
                c2 = dict(case, y=ybuf, note='y buffer overwritten in place after a previous call with the same array object')
                ctx.count('calls_on_reused_y_buffer')
                check(ctx, c2)
        if i < 2:
            ctx.sample({'x_shape': case['x'].shape, 'y_shape': case['y'].shape, 'K': case['K'], 'bound': case['bound'], 'ties': case['ties'],
                        'x_head': np.round(np.asarray(case['x']).reshape(-1)[:4], 3)})


def finalize(agg, tier):
    c = agg['counters']
    r = []
    for K in range(1, 16):
        if c.get('K=%d' % K, 0) < 20:
            r.append('K=%d used only %d times' % (K, c.get('K=%d' % K, 0)))
    for k, need in [('pairs_checked', 5000), ('ties', 200), ('K_exceeds_candidates', 50), ('uncontested_rows', 1000)]:
        if c.get(k, 0) < need:
            r.append('%s: %d < %d' % (k, c.get(k, 0), need))
    return r


def replay(ctx, case):
    if case.get('kind') == 'threads':
        for _ in range(5):
            if not thread_check(ctx, case['seed']):
                break
        return
    check(ctx, case)
