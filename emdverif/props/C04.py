"""C04 - single-IMF extraction obeys its stopping rule and always terminates.

Oracle: an independent iterate model (refmodels.ref_next_imf; plain numpy, built only on the
public interp_envelope stage) run on the same input/options yields the iterate at which the
rule first fires / the first iterate without envelopes. The real get_next_imf runs under a
logical-step monitor (envelope evaluations per extraction), so termination is decided on steps."""
import warnings

import numpy as np

from .. import gens
from ..harness import watchdog, WatchdogTimeout, MonitorAbort, digest
from ..monitors import SiftProbe, thread_probe
from ..refmodels import ref_next_imf, guard_margin

MANIFEST = {
    'text': 'Held on every extraction executed: emd.sift.get_next_imf is compared (bit-equality first, 1e-10 relative outside a measured guard band otherwise) with an independent iterate model for all stop rules, thresholds, step sizes, iteration limits 1..1000, interpolation and padding options, including the energy-threshold flag; a step-counting monitor decides termination on logical steps; the run is inconclusive unless all five exit classes (stop@1, stop@k>1, no-extrema@1, no-extrema@k>1, convergence error) were observed. Sampling, not proof. Schedules: the same deterministic calls made from 4-5 threads of one interpreter at once (thread switch every 1-10 microseconds) must reproduce the results obtained alone. A quarter of the shards run in a session that turns Deprecation/Future/UserWarnings into errors.',
    'note': 'Trusted: numpy/scipy and the public interp_envelope stage (its own correctness is C05). One iteration of slack is accepted at the max_iters boundary.',
    'technique': 'reference-model monitor on the real get_next_imf + bounded-iteration (logical step) monitor',
}
LOGGER_ON_ODD_SHARDS = 'quarter'   # (sifting logs heavily: a quarter of the shards run with the logger set up)
SESSION_NOISE = True      # every shard starts after unrelated session activity (harness.session_noise)
BUDGET_S = {'quick': 60, 'thorough': 420}
NCASES = {'quick': 10000, 'thorough': 120000}
RULE = ('seeded random first extractions (7 families, n 3..300, stop rule x thresholds x step in (0,1] x max_iters in '
        '{1,2,3,7,20,100,1000} x interp x pad x energy_thresh) plus every layer input of probed sifts and perturbed '
        'neighbours of inputs whose extrema vanished after k>1 iterations; non-trivial = the model performed at least '
        'one mean removal; distinct by sha1 of (input bytes, options)')
ASSUMPTIONS = ['the energy-threshold flag is judged when the input has energy and the ratio is >= 1 dB from the threshold (a residue without energy is an infinite ratio)']

TOL = 1e-10
GUARD = 1e-6
SHARED = {}


def rand_opts(rng):
    stop = gens.pick(rng, ['sd', 'rilling', 'fixed'])
    o = {'stop_method': stop,
         'env_step_size': float(gens.pick(rng, [1, 1, .7, .5, .3, .1, float(rng.uniform(.05, 1))])),
         'max_iters': int(gens.pick(rng, [1, 2, 3, 7, 20, 100, 1000]))}
    if stop == 'sd':
        o['sd_thresh'] = float(gens.pick(rng, [1e-3, .01, .05, .1, .3, 1.0, float(10 ** rng.uniform(-3, 0))]))
    elif stop == 'rilling':
        # (the documentation puts no order on the two thresholds: sd1 may exceed sd2)
        o['rilling_thresh'] = gens.pick(rng, gens.RILLING + [(0.02, 0.2, 0.01), (0.3, 3.0, 0.3), (0.5, 0.05, 0.05), (0.2, 0.1, 0.1), (1.0, 0.3, 0.02)])
    else:
        o['max_iters'] = int(gens.pick(rng, [1, 2, 3, 5, 7, 10, 20]))
    r = rng.random()
    if r < .15:
        o['energy_thresh'] = float(gens.pick(rng, [5, 10, 20, 50]))
    if rng.random() < .15:
        # the same numbers as numpy scalars / arrays (what a caller gets from a config file or another computation)
        o['max_iters'] = np.int64(o['max_iters'])
        o['env_step_size'] = np.float64(o['env_step_size'])
        if 'sd_thresh' in o:
            o['sd_thresh'] = np.float64(o['sd_thresh'])
        if 'rilling_thresh' in o:
            o['rilling_thresh'] = gens.pick(rng, [list, np.array])(o['rilling_thresh'])
    if rng.random() < .12:
        # thresholds left to their documented defaults (sd_thresh 0.1, rilling_thresh (0.05, 0.5, 0.05))
        o.pop('sd_thresh', None)
        o.pop('rilling_thresh', None)
    return o


def dynamic_range(rng, n):
    """A tone whose amplitude grows (or decays) by many orders of magnitude within the record - an onset / ring-down -
    or a short very strong burst, plus a slow riding wave of unit size."""
    t = np.arange(n)
    period = float(rng.uniform(6, 20))
    gain = float(10 ** rng.uniform(2, 13))
    riding = float(rng.uniform(.3, 1)) * np.sin(2 * np.pi * t / (period * float(rng.uniform(5, 9))))
    if rng.random() < .7:
        am = np.exp(np.log(gain) * (0.5 + 0.5 * np.tanh((t - n * float(rng.uniform(.3, .7))) / (n * float(rng.uniform(.05, .2))))))
    else:
        am = 1 + min(gain, 1e7) * np.exp(-((t - n / 2) / (n * .05)) ** 2)
    x = am * np.sin(2 * np.pi * t / period) + riding
    if rng.random() < .3:
        x = x[::-1].copy()
    return x * float(gens.pick(rng, [1, 1, 1e-6, 1e3]))


def gen_case(rng):
    kind = gens.pick(rng, gens.FAMILIES)
    eo = gens.env_opts(rng)
    n = int(rng.integers(3, 15)) if rng.random() < .3 else int(gens.pick(rng, [16, 40, 100, 300, 300, 3000]))
    if eo['interp_method'] != 'splrep':
        n = min(n, 150)
    x = gens.signal(rng, kind, n)
    if rng.random() < .03:
        # exactly symmetric about zero: the local mean is exactly zero, nothing is removed, the residue has no energy
        kind = 'symmetric'
        n = int(gens.pick(rng, [16, 40, 100])) * 2
        x = np.tile([1.0, -1.0], n // 2) * float(gens.pick(rng, [1, .5, 3, 2.0 ** -20]))
        eo = {'interp_method': gens.pick(rng, ['splrep', 'pchip'])}
    if rng.random() < .04:
        kind, n = 'dynamic-range', int(gens.pick(rng, [600, 1500, 2000]))
        x = dynamic_range(rng, n)
        eo = {'interp_method': 'splrep'}
    xp, _, tag = gens.present(rng, x, p_plain=.8)
    if tag in gens.VIEWS:
        xp = x
    opts = rand_opts(rng)
    if rng.random() < .1:
        strict = True
    else:
        strict = False
    if kind == 'symmetric' and rng.random() < .7:
        opts['energy_thresh'] = float(gens.pick(rng, [5, 10, 20, 50]))
    return {'kind': 'gni', 'family': kind, 'x': xp, 'opts': opts, 'runtime_warnings_are_errors': strict,
            'envelope_opts': eo, 'extrema_opts': gens.ext_opts(rng), 'presentation': tag}


def check_case(ctx, case):
    from emd import sift as S
    from emd.support import EMDSiftCovergeError
    xin = np.asarray(case['x'])
    if case.get('presentation') in gens.VIEWS:
        xin, _ = gens.relayout(None, xin, case['presentation'])
    x = np.asarray(xin, dtype=float)
    ctx.count('presentation:' + case.get('presentation', 'plain'))
    opts = dict(case['opts'])
    eo, xo = case['envelope_opts'], case['extrema_opts']
    dig = digest(x, opts, eo, xo)
    mi = opts.get('max_iters', 1000)
    stop = opts['stop_method']
    en = opts.get('energy_thresh')
    mopts = {k: v for k, v in opts.items() if k != 'energy_thresh'}

    def env(p, mode):
        return S.interp_envelope(p, mode=mode, **eo, extrema_opts=xo)

    # model without the iteration limit, capped two iterations past it
    try:
        with watchdog(60):
            m_out, m_k, m_val, trace = ref_next_imf(x, env, max_steps=mi + 2 if stop != 'fixed' else None,
                                                    **dict(mopts, max_iters=(10 ** 9 if stop != 'fixed' else mi)))
    except WatchdogTimeout:
        ctx.count('watchdog')
        ctx.case(dig, False)
        return None
    except Exception as e:
        # the model uses the same public envelope stage: an exception here is an envelope matter (C05), not C04's
        ctx.count('model_exception:' + type(e).__name__)
        ctx.case(dig, False)
        return None

    probe = SiftProbe(S)
    got = None
    # option dictionaries are passed the way a caller re-using them would: one long-lived envelope_opts object per
    # interpolation method and one extrema_opts object per option set, shared by all calls of this process
    eo_shared = SHARED.setdefault(('e', repr(sorted(eo.items()))), dict(eo))
    xo_shared = SHARED.setdefault(('x', repr(sorted(xo.items()))), dict(xo))
    strict = bool(case.get('runtime_warnings_are_errors'))
    try:
        with probe, watchdog(60), warnings.catch_warnings():
            if strict:
                # the caller's session turns RuntimeWarnings into errors: the documented outcomes are still the only ones
                warnings.simplefilter('error', RuntimeWarning)
                ctx.count('extractions_with_runtime_warnings_as_errors')
            out, flag = S.get_next_imf(xin if case.get('presentation') in gens.VIEWS else xin.copy(), envelope_opts=eo_shared, extrema_opts=xo_shared, **opts)
        got = 'ret'
    except RuntimeWarning as e:
        ctx.case(dig, True)
        if any(k in str(e) for k in ('divide by zero', 'invalid value', 'overflow', 'underflow', 'Mean of empty', 'Degrees of freedom')):
            ctx.count('numerical_runtime_warnings_under_strict_policy')      # numpy's own arithmetic on degenerate data: not judged
            return None
        ctx.violation('exception:RuntimeWarning', 'with RuntimeWarnings turned into errors get_next_imf raised %r instead of returning an IMF or '
                      'raising the convergence error' % str(e)[:100], case)
        return 'exc'
    except WatchdogTimeout:
        ctx.count('watchdog')
        ctx.case(dig, False)
        return None
    except MonitorAbort as e:
        ctx.case(dig, True)
        ctx.violation('unbounded-iteration', 'get_next_imf exceeded its logical step bound (%s) with max_iters=%s, '
                      'stop_method=%s' % (e, mi, stop), case)
        return 'abort'
    except EMDSiftCovergeError as err:
        got = 'raise'
        # the library itself runs extractions in worker processes (masked and ensemble sifts): the documented error has to survive
        # the trip back to the caller, i.e. pickling and copying - an error that cannot be rebuilt never arrives (the pool waits)
        try:
            import copy as _copy
            import pickle as _pickle
            back = _pickle.loads(_pickle.dumps(err))
            _copy.copy(err)
            ctx.count('convergence_errors_round_tripped')
            if type(back) is not type(err) or str(back) != str(err):
                raise TypeError('came back as %r' % back)
        except Exception as e2:
            ctx.case(dig, True)
            ctx.violation('convergence-error-not-transportable', 'the convergence error raised by get_next_imf cannot be pickled and rebuilt (%s: %s): raised in a '
                          'worker process of a masked / ensemble sift it never reaches the caller' % (type(e2).__name__, str(e2)[:100]), case)
            return 'exc'
    except Exception as e:
        ctx.case(dig, True)
        ctx.violation('exception:%s' % type(e).__name__, 'get_next_imf raised %s: %s' % (type(e).__name__, str(e)[:100]), case)
        return 'exc'

    if eo_shared != eo or xo_shared != xo:
        ctx.violation('option-dict-modified', 'get_next_imf changed an option dictionary passed to it (envelope_opts %s -> %s, extrema_opts %s -> %s); '
                      'a caller re-using the dictionary gets different options on the next call' % (eo, eo_shared, xo, xo_shared), case)
        SHARED.clear()
        return 'mutated'
    cls = {'stop': 'stop', 'noext': 'noext', 'toolong': 'raise'}[m_out]
    if cls != 'raise':
        cls += '@1' if m_k == 1 else '@k>1'
        if stop != 'fixed' and m_k >= mi + 2:
            cls = 'raise'
    ctx.case(dig, not (m_out == 'noext' and m_k == 1))
    ctx.count('class:' + cls)
    ctx.count('stop:' + stop)
    ctx.count('interp:' + eo['interp_method'])
    if m_k is not None and m_out != 'toolong':
        ctx.maxi('max_model_iterations', m_k)
    rec = probe.records[-1] if probe.records else {}
    ctx.maxi('max_envelope_evaluations_in_one_extraction', rec.get('env', 0))

    if got == 'raise':
        if stop == 'fixed':
            ctx.violation('raise-in-fixed', 'convergence error raised with stop_method=fixed (max_iters=%d)' % mi, case)
        elif m_out != 'toolong' and m_k < mi + 1:
            ctx.violation('premature-convergence-error', 'convergence error although the rule fires / extrema vanish at '
                          'iteration %d <= max_iters=%d' % (m_k, mi), case)
        else:
            ctx.count('raise_agreed')
        return cls
    # returned
    if m_out == 'toolong' or (stop != 'fixed' and m_k > mi + 1):
        ctx.violation('limit-not-enforced', 'returned although the model needs more than max_iters+1=%d iterations '
                      '(no convergence error)' % (mi + 1), case)
        return cls
    out = np.asarray(out)
    if out.shape != (len(x), 1):
        ctx.violation('shape', 'get_next_imf returned shape %s for %d samples' % (out.shape, len(x)), case)
        return cls
    if np.array_equal(out, m_val):
        ctx.count('exact_matches')
    else:
        g = guard_margin(trace)
        scale = max(np.abs(x).max(), 1e-300)
        err = np.abs(out - m_val).max() / scale
        if g < GUARD:
            ctx.count('guard_excluded')
        elif err <= TOL:
            ctx.count('tolerance_matches')
            ctx.maxi('max_rel_err_in_tolerance_matches', err)
        else:
            # name the mechanism: which iterate did it return?
            ctx.violation('value-mismatch:' + m_out + ('@1' if m_k == 1 else '@k'),
                          'returned IMF differs from the reference iterate (%s at iteration %d): max rel err %.3g, '
                          'guard margin %.3g, stop=%s step=%s max_iters=%s' % (m_out, m_k, err, g, stop,
                                                                            opts['env_step_size'], mi), case)
            return cls
    exp_flag = not (m_out == 'noext' and m_k == 1)
    judged_energy = False
    if en is not None and exp_flag:
        e1 = float(np.sum(x ** 2))
        e2 = float(np.sum((x.reshape(-1, 1) - m_val) ** 2))
        if e1 > 0 and e2 == 0:
            # nothing was removed: the ratio of the energies is infinite, above any threshold
            judged_energy = True
            exp_flag = False
            ctx.count('energy_judged')
            ctx.count('energy_fired_with_zero_residue')
        elif e1 > 0 and e2 > 0:
            db = 20 * np.log10(e1) - 20 * np.log10(e2)
            if abs(db - en) >= 1.0:
                judged_energy = True
                exp_flag = not (db > en)
                ctx.count('energy_judged')
                if db > en:
                    ctx.count('energy_fired')
                    if m_out == 'noext':
                        ctx.count('energy_fired_on_extrema_runout')
        if not judged_energy:
            ctx.count('energy_unjudged')
            return cls
    if bool(flag) != exp_flag:
        ctx.violation('flag:' + cls + (':energy' if judged_energy else ''),
                      'continue flag is %s but %s (model: %s at iteration %d%s)'
                      % (flag, 'the input itself had too few extrema so it must be final' if not exp_flag and not judged_energy
                         else ('the energy ratio exceeds the threshold so it must be final' if judged_energy and not exp_flag
                               else 'something was extracted / energy below threshold, so sifting can continue'),
                         m_out, m_k, ', energy_thresh=%s' % en if en is not None else ''), case)
    else:
        ctx.count('flag_agreed')
    return cls


def layer_cases(ctx, rng):
    """Run one sift under a probe that keeps every extraction's input; turn the layers into cases."""
    from emd import sift as S
    kind = gens.pick(rng, ['noise', 'walk', 'tones', 'int'])
    eo = gens.env_opts(rng, 'splrep' if rng.random() < .6 else None)
    n = int(gens.pick(rng, [40, 100, 100, 150]))
    io = gens.imf_opts(rng)
    xo = gens.ext_opts(rng)
    x = gens.signal(rng, kind, n)
    probe = SiftProbe(S, keep_inputs=True)
    try:
        with probe, watchdog(30):
            S.sift(x, imf_opts=dict(io), envelope_opts=dict(eo), extrema_opts=dict(xo))
    except BaseException:
        pass
    out = []
    for r in probe.records[1:]:
        if 'X' not in r:
            continue
        c = {'kind': 'gni', 'family': kind + '+layer', 'x': r['X'], 'opts': dict(io), 'envelope_opts': eo, 'extrema_opts': xo}
        c['opts'].setdefault('max_iters', 1000)
        if rng.random() < .5:
            # later-layer inputs are where extrema run out mid-extraction: exercise the energy rule on that exit too
            c['opts']['energy_thresh'] = float(gens.pick(rng, [3, 5, 10, 20]))
            c['opts']['env_step_size'] = float(gens.pick(rng, [1, .5, .2]))
        out.append((r.get('path'), c))
    return out


def neighbours(rng, case, k=3):
    out = []
    for _ in range(k):
        c = dict(case)
        c.pop('presentation', None)
        x = np.asarray(case['x'], dtype=float)
        c['x'] = x + rng.standard_normal(len(x)) * np.abs(x).max() * float(gens.pick(rng, [1e-4, 1e-3, 1e-2]))
        if rng.random() < .3:
            c['opts'] = dict(case['opts'], env_step_size=float(gens.pick(rng, [1, .7, .3])))
        out.append(c)
    return out


def thread_cases(seed):
    """Single-IMF extractions of equally long signals from different threads at the same time (several iterations each)."""
    from emd import sift as S
    r = np.random.default_rng(seed)
    n = int(gens.pick(r, [150, 400, 1200]))
    t = np.arange(n)
    sigs = [r.standard_normal(n), np.sin(2 * np.pi * t / 9.3) + .6 * np.sin(2 * np.pi * t / 41.) + t / n, np.cumsum(r.standard_normal(n)),
            np.sin(2 * np.pi * t / 23.) * (1 + .5 * np.sin(2 * np.pi * t / 200.)) + .3 * r.standard_normal(n)]
    io = gens.pick(r, [{'stop_method': 'sd', 'sd_thresh': .05}, {'stop_method': 'rilling'}, {'stop_method': 'fixed', 'max_iters': 6}])
    return [(lambda v: (lambda: S.get_next_imf(v.copy()[:, None], **io)))(v) for v in sigs], {'seed': int(seed), 'n': n, 'imf_opts': io}


def run_shard(ctx):
    if ctx.shard % 2 == 0:
        calls, tcase = thread_cases(int(ctx.rng.integers(1 << 30)))
        thread_probe(ctx, 'get_next_imf (%d samples)' % tcase['n'], calls, 40, tcase)
    rng = ctx.rng
    n = NCASES[ctx.tier] // ctx.nshards
    queue = []
    done = 0
    while done < n and not ctx.out_of_time():
        if queue:
            case = queue.pop()
        elif rng.random() < .12:
            for path, c in layer_cases(ctx, rng):
                queue.append(c)
                if path == 'B':
                    queue.extend(neighbours(rng, c))
            ctx.count('probed_sifts_for_layer_inputs')
            continue
        else:
            case = gen_case(rng)
        cls = check_case(ctx, case)
        done += 1
        if done <= 2:
            ctx.sample({'family': case['family'], 'n': len(case['x']), 'opts': case['opts'], 'envelope_opts': case['envelope_opts'],
                        'extrema_opts': case['extrema_opts'], 'x_head': np.round(case['x'][:6], 4), 'exit_class': cls})
        if cls == 'noext@k>1' and len(queue) < 300 and rng.random() < .5:
            queue.extend(neighbours(rng, case, 2))


def finalize(agg, tier):
    c = agg['counters']
    need = {'quick': 20, 'thorough': 200}[tier]
    r = []
    for cls in ['stop@1', 'stop@k>1', 'noext@1', 'noext@k>1', 'raise']:
        if c.get('class:' + cls, 0) < need:
            r.append('exit class %s seen %d times (need >= %d)' % (cls, c.get('class:' + cls, 0), need))
    if c.get('energy_judged', 0) < need:
        r.append('energy-threshold flag judged only %d times' % c.get('energy_judged', 0))
    return r


def replay(ctx, case):
    if case.get('kind') == 'threads':
        for _ in range(5):
            calls, tcase = thread_cases(case['seed'])
            if not thread_probe(ctx, 'get_next_imf (%d samples)' % tcase['n'], calls, 40, tcase):
                break
        return
    print('exit class:', check_case(ctx, case))
