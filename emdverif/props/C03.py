"""C03 - IMFs are peeled one at a time from the running residual; caps are respected.

Oracles on the real functions:
 (i)   peel: column k of sift / mask_sift equals the public single-IMF stage applied to
       x - sum(columns < k) (the implementation's own previous columns);
 (ii)  cap: variant(x, max_imfs=k) equals the first min(k, K) columns of the uncapped run;
 (iii) shape / cap / finiteness post-condition on all six variants (classic, masked, ensemble,
       complete-ensemble, second-layer, masked second-layer); the second-layer variants are also
       compared with their executable spec (each first-layer column sifted on its own, zero padded)."""
import numpy as np

from .. import gens
from ..monitors import thread_probe, in_process_pools
from ..harness import watchdog, WatchdogTimeout, digest

MANIFEST = {
    'text': 'Held on every call executed: seeded signals (60-400 samples) x option sets x caps 1..K+2 drive all six sift variants; every sift/mask_sift column is re-extracted with the public single-IMF stage from the residual of the previous columns (bit-equality expected), capped runs are compared with prefixes of the uncapped run (array_equal), and every variant\'s return value is checked for rank, row count, component count <= cap and finiteness; second-layer outputs are compared with per-column sifts. Sampling, not proof. Schedules: the same deterministic calls made from 4-5 threads of one interpreter at once (thread switch every 1-10 microseconds) must reproduce the results obtained alone. A quarter of the shards run in a session that turns Deprecation/Future/UserWarnings into errors.',
    'note': 'Trusted: numpy/scipy; the single-IMF stage functions themselves (their correctness is C04/C07). Ensemble variants are run with nprocesses 1-2 and numpy\'s global RNG seeded per case.',
    'technique': 'runtime post-condition monitors + differential oracle between capped/uncapped runs and stage-wise re-extraction on the real functions',
}
LOGGER_ON_ODD_SHARDS = 'quarter'   # (sifting logs heavily: a quarter of the shards run with the logger set up)
SESSION_NOISE = True      # every shard starts after unrelated session activity (harness.session_noise)
BUDGET_S = {'quick': 75, 'thorough': 480}
NCASES = {'quick': 480, 'thorough': 8000}
RULE = ('seeded random signals (noise, walks, tones+trend, AM/FM, integer-valued) of 60..400 samples x variant x option '
        'set x caps 1..K+2; non-trivial = the uncapped/base run returned >= 2 components; distinct by sha1 of (signal, '
        'variant, options)')
ASSUMPTIONS = ['an exception on a finite signal with documented options counts as a violation (no result to be a [samples x components] array)']

VARIANTS = ['sift', 'mask', 'ens', 'cens', 'second', 'mask_second']


def base_signal(rng, nmax=400):
    kind = gens.pick(rng, gens.OSC_FAMILIES)
    n = int(rng.integers(60, nmax + 1))
    return kind, gens.signal(rng, kind, n)


def opts(rng, light=False):
    io = gens.imf_opts(rng)
    eo = gens.env_opts(rng, 'splrep' if (light or rng.random() < .6) else None)
    xo = gens.ext_opts(rng)
    return io, eo, xo


def finite_shape(ctx, name, arr, n, cap, case, ndim=2):
    if not isinstance(arr, np.ndarray) or arr.ndim != ndim or arr.shape[0] != n:
        ctx.violation('shape:' + name, '%s returned %s, expected a %d-d array with %d rows'
                      % (name, getattr(arr, 'shape', type(arr).__name__), ndim, n), case)
        return False
    ncomp = arr.shape[-1]
    if cap is not None and ncomp > cap:
        ctx.violation('cap-exceeded:' + name, '%s returned %d components for max_imfs=%d' % (name, ncomp, cap), case)
        return False
    if not np.all(np.isfinite(arr)):
        ctx.violation('nonfinite:' + name, '%s returned non-finite values for finite input' % name, case)
        return False
    ctx.count('returns:' + name)
    return True


def int_vs_float(ctx, name, xi, out_int, run_float, case):
    """Integer-typed input must give the decomposition of the same values as floats."""
    ctx.count('integer_inputs:' + name)
    ref = run_float(xi.astype(float))
    if out_int.shape != ref.shape or not np.array_equal(np.asarray(out_int, dtype=float), ref):
        err = (np.abs(np.asarray(out_int, dtype=float) - ref).max() if out_int.shape == ref.shape else float('nan'))
        ctx.violation('integer-input:' + name, '%s of an %s recording differs from %s of the same values as float64 (shapes %s vs %s, max diff %.3g, '
                      'result dtype %s)' % (name, xi.dtype, name, out_int.shape, ref.shape, err, out_int.dtype), case)
        return False
    return True


def check_sift(ctx, case):
    from emd import sift as S
    x, io, eo, xo = case['x'], case['imf_opts'], case['envelope_opts'], case['extrema_opts']
    kw = dict(imf_opts=io, envelope_opts=eo, extrema_opts=xo)
    base = S.sift(x.copy(), **kw)
    if x.dtype.kind in 'iu':
        if not int_vs_float(ctx, 'sift', x, base, lambda v: S.sift(v, **kw), case):
            return
        x = x.astype(float)
    ctx.case(digest(x, kw, 'sift'), base.ndim == 2 and base.shape[1] >= 2)
    if not finite_shape(ctx, 'sift', base, len(x), None, case):
        return
    K = base.shape[1]
    if K > np.log2(len(x)) + 1:
        ctx.count('uncapped_sifts_with_more_components_than_log2_samples')
    # (i) peel
    for k in (range(K) if K <= 30 else list(range(10)) + list(range(K - 10, K))):
        resid = x[:, None] - base[:, :k].sum(axis=1)[:, None]
        col, _ = S.get_next_imf(resid, envelope_opts=eo, extrema_opts=xo, **io)
        ctx.count('peel_columns_checked')
        if np.array_equal(col[:, 0], base[:, k]):
            ctx.count('peel_exact')
        else:
            err = np.abs(col[:, 0] - base[:, k]).max() / max(np.abs(x).max(), 1e-300)
            # a refactor accumulating the residual differently perturbs it by an ulp: accept rounding level only
            if err > 1e-9:
                ctx.violation('peel:sift', 'column %d of sift is not single-IMF extraction of x minus the previous columns '
                              '(rel err %.3g)' % (k, err), case)
                return
            ctx.count('peel_tolerance')
    # (ii) caps
    caps = list(range(1, K + 3))
    if K > 10:
        caps = sorted(set([1, 2, 3, K - 1, K, K + 1, K + 2] + [int(c) for c in case.get('cap_sample', [])]))
        caps = [c for c in caps if 1 <= c <= K + 2]
    for cap in caps:
        out = S.sift(x.copy(), max_imfs=cap, **kw)
        ctx.count('capped_runs')
        if cap > K:
            ctx.count('capped_runs_beyond_K')
        if not finite_shape(ctx, 'sift', out, len(x), cap, dict(case, cap=cap)):
            return
        want = base[:, :min(cap, K)]
        if out.shape != want.shape or not np.array_equal(out, want):
            ctx.violation('cap-prefix:sift', 'sift(max_imfs=%d) returned %s, not the first %d columns of the uncapped run (%d columns)'
                          % (cap, out.shape, min(cap, K), K), dict(case, cap=cap))
            return


def mask_amp_for(x, base, k, mk):
    mode = mk['mask_amp_mode']
    if mode == 'abs':
        sd = 1
    elif mode == 'ratio_sig' or k == 0:
        sd = x.std()
    else:
        sd = base[:, k - 1].std()
    a = mk['mask_amp']
    return (a if np.isscalar(a) else a[k]) * sd


def check_mask(ctx, case):
    from emd import sift as S
    x, io, eo, xo = case['x'], case['imf_opts'], case['envelope_opts'], case['extrema_opts']
    mk = dict(case['mask'])
    kw = dict(imf_opts=io, envelope_opts=eo, extrema_opts=xo, **mk)
    auto = isinstance(mk['mask_freqs'], str)
    if auto:
        # session history: the same recording was sifted a moment ago with the same stop rule but another envelope / extrema setting
        other_e = {'interp_method': 'pchip' if eo.get('interp_method') != 'pchip' else 'mono_pchip'}
        other_x = dict(xo, parabolic_extrema=not xo.get('parabolic_extrema', False))
        try:
            S.mask_sift(x.copy(), max_imfs=2, **dict(kw, envelope_opts=other_e, extrema_opts=other_x))
        except Exception:
            pass
        ctx.count('auto_mask_runs_after_a_run_with_other_stage_options')
    base, freqs = S.mask_sift(x.copy(), max_imfs=12, ret_mask_freq=True, **kw)
    ctx.case(digest(x, kw, 'mask'), base.ndim == 2 and base.shape[1] >= 2)
    if auto and x.dtype.kind == 'f' and np.ptp(x) > 0:
        # the first mask frequency is the one estimated from the first IMF extracted WITH the supplied options
        from emd import spectra as SP
        first, _ = S.get_next_imf(x[:, None], envelope_opts=eo, extrema_opts=xo, **io)
        if mk['mask_freqs'] == 'zc':
            z0 = int((np.diff(np.sign(first[:, 0])) != 0).sum()) / len(x) / 4
        else:
            _, IF, IA = SP.frequency_transform(first, 1, 'nht', smooth_phase=3)
            z0 = np.average(IF, weights=IA)
        ctx.count('first_mask_frequency_checks')
        if abs(freqs[0] - z0) > 1e-12 * max(abs(z0), 1e-12):
            ctx.violation('first-mask-frequency:' + mk['mask_freqs'], 'the first mask frequency %.6g is not the estimate %.6g obtained from the first IMF '
                          'extracted with the supplied options (the layer is then not the documented masked extraction)' % (freqs[0], z0), case)
            return
    if x.dtype.kind in 'iu':
        if not int_vs_float(ctx, 'mask_sift', x, base, lambda v: S.mask_sift(v, max_imfs=12, **kw), case):
            return
        x = x.astype(float)
    if not finite_shape(ctx, 'mask_sift', base, len(x), 12, case):
        return
    K = base.shape[1]
    for k in range(K):
        resid = x[:, None] - base[:, :k].sum(axis=1)[:, None]
        col, _ = S.get_next_imf_mask(resid, freqs[k], mask_amp_for(x, base, k, mk), nphases=mk['nphases'],
                                     imf_opts=io, envelope_opts=eo, extrema_opts=xo)
        ctx.count('peel_columns_checked')
        if np.array_equal(col[:, 0], base[:, k]):
            ctx.count('peel_exact')
        else:
            err = np.abs(col[:, 0] - base[:, k]).max() / max(np.abs(x).max(), 1e-300)
            if err > 1e-9:
                ctx.violation('peel:mask_sift', 'column %d of mask_sift is not masked single-IMF extraction of x minus the '
                              'previous columns (rel err %.3g)' % (k, err), case)
                return
            ctx.count('peel_tolerance')
    if auto:
        # ... and another recording was sifted with the same options before the capped runs are made
        S.mask_sift(np.asarray(x, dtype=float)[::-1].copy() * 1.5 + 0.1, max_imfs=2, **kw)
    for cap in range(1, min(K + 2, 12) + 1):
        out = S.mask_sift(x.copy(), max_imfs=cap, **kw)
        ctx.count('capped_runs')
        if cap > K:
            ctx.count('capped_runs_beyond_K')
        if not finite_shape(ctx, 'mask_sift', out, len(x), cap, dict(case, cap=cap)):
            return
        want = base[:, :min(cap, K)]
        if out.shape != want.shape or not np.array_equal(out, want):
            ctx.violation('cap-prefix:mask_sift', 'mask_sift(max_imfs=%d) returned %s, not the first %d columns of the cap-12 run '
                          '(%d columns)' % (cap, out.shape, min(cap, K), K), dict(case, cap=cap))
            return


def check_ens(ctx, case):
    from emd import sift as S
    x, io, eo, xo = case['x'], case['imf_opts'], case['envelope_opts'], case['extrema_opts']
    ek = dict(case['ens'])
    cap = case['cap']
    ctx.case(digest(x, io, eo, xo, ek, cap, case['kind']), True)
    if np.ptp(x) == 0:
        ctx.count('constant_inputs:' + case['kind'])
    np.random.seed(case['rng_seed'])
    if case['kind'] == 'ens':
        out = S.ensemble_sift(x.copy(), max_imfs=cap, imf_opts=io, envelope_opts=eo, extrema_opts=xo, **ek)
        if cap is not None:
            ctx.count('ensemble_capped')
        finite_shape(ctx, 'ensemble_sift', out, len(x), cap, case)
    else:
        out = S.complete_ensemble_sift(x.copy(), max_imfs=cap, imf_opts=io, envelope_opts=eo, extrema_opts=xo, **ek)
        if not (isinstance(out, tuple) and len(out) == 2):
            ctx.violation('shape:complete_ensemble_sift', 'complete_ensemble_sift did not return (imf, noise)', case)
            return
        if cap is not None:
            ctx.count('complete_ensemble_capped')
        if finite_shape(ctx, 'complete_ensemble_sift', out[0], len(x), cap, case):
            nz = out[1]
            if not (isinstance(nz, np.ndarray) and nz.shape == (len(x), ek['nensembles']) and np.all(np.isfinite(nz))):
                ctx.violation('shape:complete_ensemble_noise', 'noise output has shape %s, expected (%d, %d) finite'
                              % (getattr(nz, 'shape', None), len(x), ek['nensembles']), case)


def check_second(ctx, case):
    from emd import sift as S
    IA, io, eo, xo = case['IA'], case['imf_opts'], case['envelope_opts'], case['extrema_opts']
    sa = case['sift_args']
    n, M = IA.shape
    ctx.case(digest(IA, sa, io, case['kind']), True)
    full = None if sa is None else dict(sa)
    if full is not None and case.get('with_opts'):
        full.update(imf_opts=io, envelope_opts=eo, extrema_opts=xo)
    cap = (sa or {}).get('max_imfs', M)
    if case['kind'] == 'second':
        out = S.sift_second_layer(IA.copy(), sift_args=(None if full is None else dict(full)))
        name = 'sift_second_layer'
    else:
        out = S.mask_sift_second_layer(IA.copy(), case['mask_freqs'], sift_args=(None if full is None else dict(full)))
        name = 'mask_sift_second_layer'
    ctx.count('second_layer_args:' + ('None' if sa is None else ('empty' if not sa else ('cap>M' if cap > M else 'cap<=M'))))
    if not finite_shape(ctx, name, out, n, cap, case, ndim=3):
        return
    if out.shape[1] != M:
        ctx.violation('shape:' + name, '%s returned %s for %d first-layer IMFs' % (name, out.shape, M), case)
        return
    # executable spec: every first-layer column sifted on its own with the same arguments, zero padded
    for i in range(M):
        a = dict(full or {})
        a.setdefault('max_imfs', M)
        if case['kind'] == 'second':
            ref = S.sift(IA[:, i].copy(), **a)
        else:
            ref = S.mask_sift(IA[:, i].copy(), mask_freqs=case['mask_freqs'][i:], **a)
        pad = np.zeros((n, out.shape[2]))
        pad[:, :ref.shape[1]] = ref[:, :out.shape[2]]
        ctx.count('second_layer_columns_checked')
        if ref.shape[1] > out.shape[2] or not np.array_equal(out[:, i, :], pad):
            ctx.violation('second-layer-column:' + name, 'second-layer IMFs of first-layer column %d are not the sift of that '
                          'column (zero padded): got %d non-zero columns, expected %d'
                          % (i, int(np.any(out[:, i, :] != 0, axis=0).sum()), ref.shape[1]), case)
            return


CHECK = {'sift': check_sift, 'mask': check_mask, 'ens': check_ens, 'cens': check_ens, 'second': check_second,
         'mask_second': check_second}


def gen_case(rng, variant):
    light = variant != 'sift'
    kind, x = base_signal(rng, 400 if variant == 'sift' else 200)
    io, eo, xo = opts(rng, light)
    if variant == 'sift' and rng.random() < .12:
        # deliberate over-sifting of a broadband recording: many more components than log2(samples)
        kind, x = 'noise-oversifted', rng.standard_normal(int(gens.pick(rng, [64, 130, 264])))
        io = {'stop_method': 'fixed', 'max_iters': int(gens.pick(rng, [50, 120, 300]))}
        eo = {'interp_method': 'splrep'}
    if eo['interp_method'] != 'splrep':
        x = x[:150]
    r0 = rng.random()
    if r0 < .25:
        # amplitudes across the range the design commits to (1e-6 .. 1e6): results must stay finite
        x = x * float(gens.pick(rng, [1e-6, 1e-3, 1e3, 1e6]))
    elif r0 < .40:
        # "all finite signals": integer-typed recordings (raw counts); results must equal those of the same values as floats
        x = np.round(x / max(np.abs(x).max(), 1e-12) * float(gens.pick(rng, [50, 1000])))
        if rng.random() < .4:
            x = (x - x.min()).astype(gens.pick(rng, [np.uint16, np.uint32, np.uint64]))      # raw counts above a floor of 0, unsigned storage
        else:
            x = x.astype(gens.pick(rng, [np.int64, np.int32, np.int16]))
    elif r0 < .46 and variant in ('ens', 'cens', 'sift', 'mask'):
        # degenerate but finite: constant (zero-variance) recordings
        x = np.full(len(x), float(gens.pick(rng, [0.0, 1.0, -3.5])))
    c = {'kind': variant, 'family': kind, 'x': x, 'imf_opts': io, 'envelope_opts': eo, 'extrema_opts': xo,
         'cap_sample': rng.integers(4, 40, 3)}
    if variant == 'mask':
        c['mask'] = {'mask_amp_mode': gens.pick(rng, ['abs', 'ratio_sig', 'ratio_imf']),
                     'mask_freqs': (gens.pick(rng, ['zc', 'if']) if rng.random() < .3 else float(gens.pick(rng, [0.3, 0.2, 0.12])) if rng.random() < .5 else gens.pick(rng, [[0.3, 0.14, 0.07, 0.03, 0.015, 0.007], [.4, .2, .1, .05, .025, 0], [.3, 0.0, .1, .05]])),
                     'mask_amp': (float(gens.pick(rng, [1, .5, 2])) if rng.random() < .6 else rng.uniform(.4, 2, 12)),
                     'nphases': int(gens.pick(rng, [1, 2, 4])), 'mask_step_factor': float(gens.pick(rng, [2, 3, 1.5]))}
    elif variant in ('ens', 'cens'):
        c['ens'] = {'nensembles': int(rng.integers(1, 5)), 'nprocesses': int(rng.integers(1, 3)),
                    'ensemble_noise': float(gens.pick(rng, [0.0, .05, .2, 1.0])), 'noise_mode': gens.pick(rng, ['single', 'flip'])}
        c['cap'] = gens.pick(rng, [None, 1, 2, 3, 4, 6, 9, 12])
        c['rng_seed'] = int(rng.integers(2 ** 31))
        if rng.random() < .4:
            c['x'] = x[:int(rng.integers(16, 60))]
    elif variant in ('second', 'mask_second'):
        from emd import sift as S
        imf = S.sift(np.asarray(x, dtype=float), max_imfs=int(rng.integers(2, 5)))
        c['IA'] = np.abs(imf) + 1
        del c['x']
        c['sift_args'] = gens.pick(rng, [None, {}, {'max_imfs': 1}, {'max_imfs': 2}, {'max_imfs': 3}, {'max_imfs': 4},
                                         {'max_imfs': 6}])
        c['with_opts'] = bool(rng.random() < .5)
        if variant == 'mask_second':
            M = c['IA'].shape[1]
            c['mask_freqs'] = [0.25 / 2 ** i for i in range(M + 2)]
    return c


def thread_cases(seed):
    """Equally long channels mask-sifted (uncapped and capped) from different threads at the same time."""
    from emd import sift as S
    r = np.random.default_rng(seed)
    n = int(gens.pick(r, [300, 1000, 3000]))
    t = np.arange(n)
    chans = [np.sin(2 * np.pi * t / float(r.uniform(8, 14))) + .5 * np.sin(2 * np.pi * t / float(r.uniform(40, 90))) + .2 * r.standard_normal(n) for _ in range(2)]
    nph = int(gens.pick(r, [2, 4]))
    calls = []
    for ch, mf in zip(chans, ([.3, .1, .04], [.22, .08, .03])):
        for cap in (3, 2):
            calls.append((lambda v, f, c: (lambda: S.mask_sift(v.copy(), max_imfs=c, mask_freqs=f, nphases=nph)))(ch, mf, cap))
    return calls, {'seed': int(seed), 'n': n, 'nphases': nph}


def thread_check(ctx, seed):
    calls, tcase = thread_cases(seed)
    with in_process_pools():
        return thread_probe(ctx, 'mask_sift (%d samples, %d phases)' % (tcase['n'], tcase['nphases']), calls, 6 if tcase['n'] > 1000 else 15, tcase)


def run_shard(ctx):
    if ctx.shard % 2 == 0:
        thread_check(ctx, int(ctx.rng.integers(1 << 30)))
    rng = ctx.rng
    n = NCASES[ctx.tier] // ctx.nshards
    for i in range(n):
        if ctx.out_of_time():
            break
        variant = VARIANTS[(i + ctx.shard) % len(VARIANTS)]
        case = gen_case(rng, variant)
        try:
            with watchdog(120):
                CHECK[variant](ctx, case)
        except WatchdogTimeout:
            ctx.count('watchdog')
        except Exception as e:
            from emd.support import EMDSiftCovergeError
            if isinstance(e, EMDSiftCovergeError):
                ctx.count('raised_convergence')
            else:
                ctx.case(digest(repr(case)[:2000]), False)
                ctx.violation('exception:%s:%s' % (variant, type(e).__name__),
                              '%s variant raised %s: %s on a finite signal with documented options'
                              % (variant, type(e).__name__, str(e)[:120]), case)
        if i < 6 and ctx.shard == 0:
            ctx.sample({k: (np.round(np.asarray(v).reshape(-1)[:5], 4) if isinstance(v, np.ndarray) else v) for k, v in case.items()})


def finalize(agg, tier):
    c = agg['counters']
    r = []
    for name in ['sift', 'mask_sift', 'ensemble_sift', 'complete_ensemble_sift', 'sift_second_layer', 'mask_sift_second_layer']:
        if c.get('returns:' + name, 0) < 30:
            r.append('%s returned only %d times (need >= 30)' % (name, c.get('returns:' + name, 0)))
    if c.get('capped_runs_beyond_K', 0) < 20:
        r.append('fewer than 20 capped runs with cap > K')
    if c.get('peel_columns_checked', 0) < 200:
        r.append('fewer than 200 peeled columns checked')
    return r


def replay(ctx, case):
    if case.get('kind') == 'threads':
        for _ in range(5):
            if not thread_check(ctx, case['seed']):
                break
        return
    CHECK[case['kind']](ctx, case)
