"""C08 - ensemble sifts average genuinely independent noise realisations.

Oracle over an unambiguous history: recording wrappers on _sift_with_noise and sift, active in
every forked worker, log for each member decomposition the pid and the *bytes* of the noisy input
actually sifted. Offline: noise_i = input_i - x must be pairwise distinct across members (flip mode:
a +-pair per member), the number of member decompositions must be nensembles*(1|2), the returned
IMFs must be the per-IMF mean of the member decompositions recomputed by the harness from the
traced inputs, and zero noise must reproduce the classic sift."""
import os
import shutil
import time

import numpy as np

from .. import gens
from ..harness import WORK, watchdog, WatchdogTimeout, digest
from ..monitors import StageTrace

MANIFEST = {
    'text': 'Held on every ensemble call executed: ensemble_sift and complete_ensemble_sift are run for nensembles 1..8 x nprocesses 1..8 x noise_mode {single, flip} x noise {0, 0.05, 2} with delay injection in the workers, on float64 recordings and (an eighth of the cases) integer recordings of 3-40 counts amplitude; the noisy input of every member decomposition is captured byte-for-byte in whichever process sifts it; members must have pairwise distinct noise (flip: +- pairs), the count of decompositions must match, the output must equal the per-IMF member mean recomputed from the captured inputs (1e-12), and zero noise must equal the classic sift. Calls where jobs did not land on >= 2 different worker pids cannot show duplicated fork state; too few such calls makes the run inconclusive. OS schedules are sampled, not enumerated. Schedules: the same deterministic calls made from 4-5 threads of one interpreter at once (thread switch every 1-10 microseconds) must reproduce the results obtained alone. A quarter of the shards run in a session that turns Deprecation/Future/UserWarnings into errors.',
    'note': 'Trusted: fork start method (asserted), the classic sift used to recompute member decompositions (C01-C04), numpy/scipy. If a member lacks a component, either the zero-padded mean or absence of the column is accepted.',
    'technique': 'offline history checker over per-process event logs (unique noise digests per member, recomputed member mean), delay injection for schedule diversity',
}
LOGGER_ON_ODD_SHARDS = 'quarter'   # (sifting logs heavily: a quarter of the shards run with the logger set up)
SESSION_NOISE = True      # every shard starts after unrelated session activity (harness.session_noise)
BUDGET_S = {'quick': 80, 'thorough': 540}
NCASES = {'quick': 400, 'thorough': 6000}
RULE = ('seeded random signals (100..250 samples) x variant {ensemble, complete ensemble} x nensembles 1..8 x nprocesses '
        '1..8 x noise_mode x noise level {0, .05, .2, 2} x option sets; non-trivial = non-zero noise and >= 2 members; '
        'distinct by sha1 of (signal, options, rng seed)')
ASSUMPTIONS = ['numpy global RNG is seeded per case by the harness and restored afterwards']

TOL = 1e-12


def analyse(events, parent_pid):
    """Group the trace into layers -> members -> child sift inputs.
    Returns list of layers: {'X': layer input, 'members': [{'pid', 'job', 'inputs': [arrays]}]}"""
    by_pid = {}
    for e in events:
        by_pid.setdefault(e['pid'], []).append(e)
    layers, order = {}, []
    for pid, evs in by_pid.items():
        evs.sort(key=lambda r: r['seq'])
        cur = None
        for e in evs:
            if e['stage'] == 'swn':
                sha = e['arr']['X']['sha']
                if sha not in layers:
                    layers[sha] = {'X': np.array(e['arr']['X']['data']), 't': e['t'], 'members': []}
                    order.append(sha)
                layers[sha]['t'] = min(layers[sha]['t'], e['t'])
                cur = {'pid': pid, 'job': e['kw'].get('job_ind'), 'inputs': [], 't': e['t']}
                layers[sha]['members'].append(cur)
            elif e['stage'] == 'sift' and e.get('parent') == 'swn' and cur is not None:
                cur['inputs'].append(np.array(e['arr']['X']['data']))
    out = sorted(layers.values(), key=lambda L: L['t'])
    return out


def member_mean(S, L, kw, cap, flip):
    """Recompute the member decompositions of one layer from the captured inputs."""
    decs = []
    for m in L['members']:
        parts = [S.sift(v.copy(), max_imfs=cap, **kw) for v in m['inputs']]
        if flip and len(parts) == 2:
            k = min(parts[0].shape[1], parts[1].shape[1])
            decs.append((parts[0][:, :k] + parts[1][:, :k]) / 2)
        else:
            decs.append(parts[0])
    return decs


def check_noise_distinct(ctx, L, flip, nens, noise_level, case, label, later_layer=False):
    """noise_i = input - layer input: distinct across members; flip members are +-pairs."""
    X = L['X']
    scale = max(np.abs(X).max(), 1e-300)
    noises = []
    for m in L['members']:
        want = 2 if flip else 1
        if len(m['inputs']) != want:
            ctx.violation('member-decomposition-count', '%s: a member performed %d decompositions, expected %d (noise_mode=%s)'
                          % (label, len(m['inputs']), want, 'flip' if flip else 'single'), case)
            return False
        n = [v - X for v in m['inputs']]
        # (x+n and x-n are each rounded relative to their own size: in late complete-ensemble layers the noise can be orders of
        # magnitude larger than what is left of the signal)
        if flip and np.abs(n[0] + n[1]).max() > 1e-12 * max(scale, np.abs(n[0]).max()):
            ctx.violation('flip-not-antisymmetric', '%s: the two runs of a flip member are not x+n and x-n' % label, case)
            return False
        noises.append(n[0])
    if len(L['members']) != nens:
        ctx.violation('member-count', '%s: %d member decompositions traced, %d requested' % (label, len(L['members']), nens), case)
        return False
    if noise_level == 0:
        return True
    for i in range(len(noises)):
        if np.abs(noises[i]).max() == 0:
            if later_layer:
                # complete ensemble: a member's noise process can be exhausted (its remaining noise residual is exactly zero
                # once the sift of the noise has returned all of it) - nothing to be distinct about
                ctx.count('exhausted_noise_members')
                continue
            ctx.violation('zero-noise-member', '%s: member %d received no noise although ensemble_noise=%g' % (label, i, noise_level), case)
            return False
        for j in range(i + 1, len(noises)):
            a, b = noises[i], noises[j]
            if later_layer and (np.abs(a).max() == 0 or np.abs(b).max() == 0):
                continue
            same = np.array_equal(a, b)
            # scalar multiples (shared realisation, different scale) are not independent either
            c = float(np.dot(a, b) / np.dot(b, b))
            mult = np.abs(a - c * b).max() <= 1e-9 * np.abs(a).max()
            shifted = None
            if not (same or mult):
                # a realisation that is a shifted copy of another one is not an independent realisation either
                for lag in range(1, 17):
                    if np.array_equal(a[lag:], b[:-lag]) or np.array_equal(b[lag:], a[:-lag]):
                        shifted = lag
                        break
                if shifted is None and len(np.intersect1d(a, b)) > 0.5 * len(a):
                    shifted = -1
            if shifted is not None:
                ctx.violation('overlapping-noise', '%s: the noise of members %d and %d shares its samples (%s) - they are not independent realisations'
                              % (label, i, j, 'one is the other shifted by %d samples' % shifted if shifted > 0 else 'more than half of the values coincide'), case)
                return False
            if same or mult:
                pids = (L['members'][i]['pid'], L['members'][j]['pid'])
                ctx.violation('duplicate-noise' + (':across-workers' if pids[0] != pids[1] else ':same-worker'),
                              '%s: members %d and %d were sifted with %s noise (pids %s, nprocesses=%d, nensembles=%d)'
                              % (label, i, j, 'byte-identical' if same else 'proportional', pids, case['ens']['nprocesses'], nens), case)
                return False
    ctx.count('layers_with_distinct_noise')
    return True


def check_case(ctx, tr, case):
    from emd import sift as S
    x, io, eo, xo = case['x'], case['imf_opts'], case['envelope_opts'], case['extrema_opts']
    ek = case['ens']
    cap = case['cap']
    kw = dict(imf_opts=io, envelope_opts=eo, extrema_opts=xo)
    if case.get('sift_thresh') is not None:
        kw['sift_thresh'] = case['sift_thresh']      # a sift threshold that actually ends decompositions: part of the members' configuration
        ctx.count('calls_with_a_binding_sift_threshold')
    flip = ek['noise_mode'] == 'flip'
    nens, lvl = ek['nensembles'], ek['ensemble_noise']
    if np.asarray(x).dtype.kind in 'iu' and lvl != 0:
        ctx.count('noisy_ensembles_of_integer_recordings')
    ctx.case(digest(x, kw, ek, cap, case['rng_seed'], case['kind']), lvl != 0 and nens >= 2)
    state = np.random.get_state()
    np.random.seed(case['rng_seed'])
    tr.begin(case['kind'])
    tr.delay_rng = np.random.default_rng(case['rng_seed'])
    try:
        if case['kind'] == 'ens':
            out = S.ensemble_sift(x.copy(), max_imfs=cap, **ek, **kw)
        else:
            out, _nz = S.complete_ensemble_sift(x.copy(), max_imfs=cap, **ek, **kw)
    finally:
        np.random.set_state(state)
    events = tr.collect()
    if ek.get('verbose') and ek['nprocesses'] == 1:
        # the same call, same random state, without the verbosity override (single worker: the members' noise is drawn in the same
        # order): which noise is added, and the result, may not depend on how much is logged
        np.random.seed(case['rng_seed'])
        tr.begin(case['kind'])
        try:
            ek0 = {k: v for k, v in ek.items() if k != 'verbose'}
            if case['kind'] == 'ens':
                out0 = S.ensemble_sift(x.copy(), max_imfs=cap, **ek0, **kw)
            else:
                out0, _ = S.complete_ensemble_sift(x.copy(), max_imfs=cap, **ek0, **kw)
        finally:
            np.random.set_state(state)
        tr.collect()
        ctx.count('calls_repeated_without_the_verbosity_override')
        if out0.shape != out.shape or not np.array_equal(out0, out):
            ctx.violation('depends-on-verbosity:' + case['kind'], '%s with verbose=%r and without give different results from the same random state (nprocesses=1): '
                          'shapes %s / %s, max diff %s' % ('ensemble_sift' if case['kind'] == 'ens' else 'complete_ensemble_sift', ek['verbose'], out.shape, out0.shape,
                                                           '%.3g' % np.abs(out0 - out).max() if out0.shape == out.shape else 'n/a'), case)
            return
    ctx.count('calls:' + case['kind'])
    ctx.count('noise_level:%g' % lvl)
    ctx.count('mode:' + ek['noise_mode'])
    if ek.get('verbose'):
        ctx.count('calls_with_a_verbosity_override')
    if not any(e['stage'] == 'swn' for e in events):
        ctx.count('no_member_events')
        return
    layers = analyse(events, os.getpid())
    wpids = set(m['pid'] for L in layers for m in L['members']) - {os.getpid()}
    ctx.add('worker_counts_seen', len(wpids))
    L0 = layers[0]
    amap = tuple(sorted((m['job'] if m['job'] is not None else -1, m['pid']) for m in L0['members']))
    order = {}
    ctx.add('job_to_worker_maps', str(tuple(order.setdefault(p, len(order)) for _, p in amap)))
    if len(set(p for _, p in amap)) >= 2:
        ctx.count('calls_with_jobs_on_2+_workers')
    scale = max(np.abs(x).max(), 1e-300)
    if np.abs(L0['X'] - x).max() != 0:
        ctx.violation('first-layer-input', 'the first ensemble layer was not computed from the input signal', case)
        return
    if case['kind'] == 'ens':
        if len(layers) != 1:
            ctx.violation('layer-count', 'ensemble_sift produced %d groups of member decompositions' % len(layers), case)
            return
        if not check_noise_distinct(ctx, L0, flip, nens, lvl, case, 'ensemble_sift'):
            return
        decs = member_mean(S, L0, kw, cap, flip)
        kmin = min(d.shape[1] for d in decs)
        kmax = max(d.shape[1] for d in decs)
        if kmin != kmax:
            ctx.count('calls_with_unequal_member_imf_counts')
        if not (kmin <= out.shape[1] <= kmax) and not (cap is not None and out.shape[1] == min(cap, kmin)):
            ctx.violation('ensemble-columns', 'ensemble_sift returned %d components, members have between %d and %d'
                          % (out.shape[1], kmin, kmax), case)
            return
        for k in range(out.shape[1]):
            cols = [d[:, k] if d.shape[1] > k else np.zeros(len(x)) for d in decs]
            ref = np.array(cols).mean(axis=0)
            err = np.abs(out[:, k] - ref).max() / scale
            ctx.count('mean_columns_checked')
            if err > TOL:
                ctx.violation('not-member-mean' + (':flip' if flip else ':single'),
                              'ensemble_sift column %d is not the mean over the %d member decompositions recomputed from '
                              'the traced noisy inputs (rel err %.3g, noise_mode=%s)' % (k, len(decs), err, ek['noise_mode']), case)
                return
            ctx.maxi('max_rel_err_vs_member_mean', err)
        if lvl == 0:
            ref = S.sift(x.copy(), max_imfs=cap, **kw)
            ctx.count('zero_noise_cases')
            if ref.shape != out.shape or np.abs(ref - out).max() > TOL * scale:
                ctx.violation('zero-noise-differs', 'ensemble_sift with zero noise differs from the classic sift with the same cap '
                              '(shapes %s vs %s)' % (out.shape, ref.shape), case)
    else:
        if len(layers) != out.shape[1]:
            ctx.violation('layer-count', 'complete_ensemble_sift returned %d components from %d ensemble layers'
                          % (out.shape[1], len(layers)), case)
            return
        for li, L in enumerate(layers):
            if not check_noise_distinct(ctx, L, flip, nens, lvl, case, 'complete_ensemble_sift layer %d' % li, later_layer=(li > 0)):
                return
            decs = member_mean(S, L, kw, 1, flip)
            ref = np.array([d[:, 0] for d in decs]).mean(axis=0)
            err = np.abs(out[:, li] - ref).max() / scale
            ctx.count('mean_columns_checked')
            if err > TOL:
                ctx.violation('not-member-mean:complete' + (':flip' if flip else ':single'),
                              'complete_ensemble_sift component %d is not the mean of the members\' first IMFs (rel err %.3g)'
                              % (li, err), case)
                return
            if li > 0:
                want = x - out[:, :li].sum(axis=1)
                if np.abs(L['X'] - want).max() > 1e-10 * scale:
                    ctx.violation('complete-residual', 'layer %d was not computed from the input minus the previous components' % li, case)
                    return
        ctx.count('complete_ensemble_layers_checked', len(layers))
        # each member has its OWN noise process: from one layer to the next a member's noise is its previous noise minus that
        # noise's first IMF (the noise-only sifts are traced as well: their inputs are the members' noise columns)
        if lvl != 0 and nens >= 2 and len(layers) >= 2:
            pool = [np.array(e['arr']['X']['data']).reshape(-1) for e in events if e['stage'] == 'sift' and e.get('parent') != 'swn']

            def own(n, proportional=False):
                best = None
                for N in pool:
                    if N.shape != n.shape or not np.any(N):
                        continue
                    c = float(np.dot(n, N) / np.dot(N, N)) if proportional else 1.0
                    d = np.abs(n - c * N).max()
                    if d <= 1e-9 * max(np.abs(n).max(), 1e-300) and (best is None or d < best[0]):
                        best = (d, N)
                return None if best is None else best[1]
            by_job = [{m['job']: m['inputs'][0].reshape(-1) - L['X'].reshape(-1) for m in L['members'] if m['inputs']} for L in layers]
            for li in range(1, len(layers)):
                for j, n_now in by_job[li].items():
                    n_prev = by_job[li - 1].get(j)
                    if j is None or n_prev is None or not np.any(n_now) or not np.any(n_prev):
                        continue
                    N_prev = own(n_prev, proportional=(li == 1))
                    if N_prev is None:
                        ctx.count('noise_process_not_traceable')
                        continue
                    step = N_prev - S.sift(N_prev[:, None].copy(), max_imfs=1, **kw)[:, 0]
                    ctx.count('noise_process_steps_checked')
                    if np.abs(step - n_now).max() > 1e-9 * max(np.abs(n_now).max(), 1e-300):
                        other = [jj for jj, nn in by_job[li - 1].items() if jj != j and nn is not None and np.any(nn) and own(nn, li == 1) is not None
                                 and np.abs(N_prev - S.sift(own(nn, li == 1)[:, None].copy(), max_imfs=1, **kw)[:, 0] - n_now).max() <= 1e-9 * np.abs(n_now).max()]
                        ctx.violation('noise-process-mixed', 'complete_ensemble_sift: the noise of member %s in layer %d is not its own previous noise minus that '
                                      'noise\'s first IMF%s - the members\' noise processes are mixed (nprocesses=%d)'
                                      % (j, li, ' (it had the first IMF of member %s\'s noise removed)' % other[0] if other else '', ek['nprocesses']), case)
                        return


def gen_case(rng):
    fam = gens.pick(rng, ['noise', 'walk', 'tones', 'amfm', 'spikes', 'periodic'])
    n = int(rng.integers(100, 251)) if rng.random() < .65 else int(rng.integers(20, 70))   # short records: members differ in IMF count
    x = gens.signal(rng, fam, n)
    if rng.random() < .12:
        # integer recordings of small amplitude (counts, quantised sensors): the noise is a fraction of one quantisation step
        x = np.round(x / max(np.abs(x).max(), 1e-12) * float(gens.pick(rng, [3, 8, 40]))).astype(gens.pick(rng, [np.int16, np.int32, np.int64]))
    io = gens.imf_opts(rng)
    if io['stop_method'] != 'fixed':
        io['max_iters'] = 1000
    kind = 'ens' if rng.random() < .65 else 'cens'
    c = {'kind': kind, 'family': fam, 'x': x, 'imf_opts': io,
         'envelope_opts': gens.env_opts(rng, 'splrep' if rng.random() < .8 else None), 'extrema_opts': gens.ext_opts(rng),
         'ens': {'nensembles': int(rng.integers(1, 9)), 'nprocesses': int(rng.integers(1, 9)),
                 'ensemble_noise': float(gens.pick(rng, [0.0, .05, .2, 2.0])), 'noise_mode': gens.pick(rng, ['single', 'flip'])},
         'cap': gens.pick(rng, [None, 1, 2, 3, 5]) if kind == 'ens' else int(rng.integers(1, 5)),
         'rng_seed': int(rng.integers(2 ** 31))}
    if kind == 'ens' and rng.random() < .2:
        c['sift_thresh'] = float(gens.pick(rng, [.05, .15, .3])) * float(np.abs(x).sum())
    if rng.random() < .3:
        c['ens']['verbose'] = gens.pick(rng, ['WARNING', 'CRITICAL', 'INFO'])      # a per-call verbosity: documented to change logging only
    return c


def make_trace(ctx, tag):
    from emd import sift as S
    tdir = os.path.join(WORK, 'C08', 'trace_%s' % tag)
    shutil.rmtree(tdir, ignore_errors=True)
    parent = os.getpid()

    def delay(stage, rec):
        if stage == 'swn' and os.getpid() != parent:
            r = getattr(tr, 'delay_rng', None)
            time.sleep(float(r.uniform(0, 0.003)) if r is not None else 0.001)
    tr = StageTrace(tdir, [(S, '_sift_with_noise', 'swn'), (S, 'sift', 'sift')], keep_arrays=('swn', 'sift'), pre_hook=delay)
    return tr, tdir


def thread_cases(seed):
    """Zero-noise ensembles (deterministic: they equal the classic sift) of different recordings, caps and modes computed in
    different threads at the same time, with the default single worker and with two."""
    from emd import sift as S
    r = np.random.default_rng(seed)
    n = int(gens.pick(r, [150, 400]))
    t = np.arange(n)
    calls = []
    for k in range(4):
        x = np.sin(2 * np.pi * t / float(r.uniform(7, 15))) + .5 * np.sin(2 * np.pi * t / float(r.uniform(35, 80))) + .3 * r.standard_normal(n)
        cap, mode, npr = int(r.integers(2, 5)), gens.pick(r, ['single', 'flip']), int(gens.pick(r, [1, 1, 2]))
        calls.append((lambda v, c, m, p: (lambda: S.ensemble_sift(v.copy(), nensembles=3, ensemble_noise=0.0, noise_mode=m, max_imfs=c, nprocesses=p)))(x, cap, mode, npr))
    return calls, {'seed': int(seed), 'n': n}


def thread_check(ctx, seed):
    from ..monitors import thread_probe, in_process_pools
    calls, tcase = thread_cases(seed)
    with in_process_pools():
        return thread_probe(ctx, 'ensemble_sift (zero noise, %d samples)' % tcase['n'], calls, 12, tcase)


def run_shard(ctx):
    if ctx.shard % 2 == 0:
        thread_check(ctx, int(ctx.rng.integers(1 << 30)))
    rng = ctx.rng
    n = NCASES[ctx.tier] // ctx.nshards
    tr, tdir = make_trace(ctx, str(ctx.shard))
    with tr:
        for i in range(n):
            if ctx.out_of_time():
                break
            case = gen_case(rng)
            try:
                with watchdog(180):
                    check_case(ctx, tr, case)
            except WatchdogTimeout:
                ctx.count('watchdog')
            except Exception as e:
                from emd.support import EMDSiftCovergeError
                if isinstance(e, EMDSiftCovergeError):
                    ctx.count('raised_convergence')
                else:
                    ctx.violation('exception:%s:%s' % (case['kind'], type(e).__name__),
                                  '%s raised %s: %s' % (case['kind'], type(e).__name__, str(e)[:120]), case)
            if i < 2:
                ctx.sample({k: (np.round(np.asarray(v).reshape(-1)[:5], 4) if isinstance(v, np.ndarray) else v) for k, v in case.items()})
    shutil.rmtree(tdir, ignore_errors=True)


def finalize(agg, tier):
    c, s = agg['counters'], agg['sets']
    r = []
    if c.get('calls_with_jobs_on_2+_workers', 0) < 20:
        r.append('only %d calls had member jobs on >= 2 different worker pids (need >= 20)' % c.get('calls_with_jobs_on_2+_workers', 0))
    if c.get('no_member_events', 0) > 0.1 * max(agg['evaluations'], 1):
        r.append('%d calls produced no member events (is _sift_with_noise still the member routine?)' % c.get('no_member_events', 0))
    for k, need in [('layers_with_distinct_noise', 50), ('mean_columns_checked', 200), ('zero_noise_cases', 10),
                    ('calls:ens', 50), ('calls:cens', 30), ('mode:flip', 30), ('mode:single', 30),
                    ('noisy_ensembles_of_integer_recordings', 5)]:
        if c.get(k, 0) < need:
            r.append('%s: %d < %d' % (k, c.get(k, 0), need))
    if len(s.get('worker_counts_seen', ())) < 3:
        r.append('fewer than 3 distinct worker counts observed')
    return r


def replay(ctx, case):
    if case.get('kind') == 'threads':
        for _ in range(5):
            if not thread_check(ctx, case['seed']):
                break
        return
    tr, tdir = make_trace(ctx, 'replay')
    with tr:
        check_case(ctx, tr, case)
    shutil.rmtree(tdir, ignore_errors=True)
