"""C09 - instantaneous phase, frequency and amplitude are consistent and accurate.

Oracles on emd.spectra.frequency_transform / freq_from_phase / phase_from_freq and
emd.utils.amplitude_normalise:
 * invariants for any IMF set: output shapes, 0 <= IP < 2pi, exact invariance of IP/IF and exact
   scaling of IA under x -> 2^k x;
 * IF == sr/(2pi) * d/dt unwrap(IP) (central differences) for smooth in-band signals;
 * two-sided accuracy on pure sinusoids A cos(2 pi f t + phi) (convention x ~ IA sin(IP));
 * frequency -> phase -> frequency round trip equals the two-sample average of the profile;
 * amplitude normalisation is sign preserving and scale free."""
import numpy as np

from .. import gens
from ..harness import digest, watchdog, WatchdogTimeout

MANIFEST = {
    'text': 'Held on every transform executed: frequency_transform is run for methods {hilbert, nht, quad} x sample rates {1,100,512,2000} x record lengths x sinusoid frequency (10 cycles per record .. sr/12) x amplitude over 3 decades x phase x 1-3 columns; shapes, phase range, derivative consistency and two-sided accuracy bounds (calibrated in the pre-study with >= 2x headroom, reported next to the largest error seen) are asserted, scale factors 2^k must leave IP/IF bit-identical and scale IA exactly, also on AM/FM signals, sifted-noise IMFs and 3-D stacks; frequency/phase round trips on smooth random profiles must equal the two-sample average (1e-9). Sampling, not proof. A quarter of the shards run in a session that turns Deprecation/Future/UserWarnings into errors.',
    'note': 'Trusted: scipy.signal.hilbert / medfilt, numpy. Accuracy bounds are properties of the estimators on clean sinusoids (interior = all but 3 cycles / 20 samples at each end), not of arbitrary signals.',
    'technique': 'runtime oracle on the real transforms: analytic ground truth for sinusoids + exact metamorphic scaling + derivative-consistency invariant',
}
LOGGER_ON_ODD_SHARDS = True
BUDGET_S = {'quick': 60, 'thorough': 360}
NCASES = {'quick': 4000, 'thorough': 40000}
RULE = ('seeded random sinusoids (method x sr x n x cycles-per-record U(10, n/12) x amplitude 10^U(-1.5,1.5) x phase x 1-3 '
        'columns), AM/FM and sifted-noise IMFs for the invariants, smooth random frequency profiles for the round trip; '
        'every case is non-trivial; distinct by sha1 of (signal, method, sr)')
ASSUMPTIONS = ['interior = samples at least max(3 cycles, 20 samples) from either end']

# (max rel freq err, max rel amp err, max phase err [rad]) hilbert/nht ; quad uses medians for freq/phase.
# Calibrated on 64 000 sinusoids of the unchanged tree (/tmp calibration run recorded in DESIGN 8.7): largest values
# seen  hilbert fmax .035 amax .035 pmax .032 | nht .040 .034 .037 | quad fmed .139 (sampling resonance at f = sr/14)
# pmed .029 amax .034 | |mean IF - f|/f <= .0017 for all three.  Every bound below keeps >= 2x headroom.
LIM = {'hilbert': dict(fmax=.07, amax=.07, pmax=.08), 'nht': dict(fmax=.07, amax=.07, pmax=.08),
       'quad': dict(fmed=.3, amax=.07, pmed=.06)}
MEAN_IF = 0.01


def present_scalar(v, form):
    """The same number handed over in different ways."""
    if form == 'np.float64':
        return np.float64(v)
    if form == '0-d array':
        return np.asarray(v, dtype=float)
    if form == 'int' and float(v) == int(v):
        return int(v)
    if form == 'np.int64' and float(v) == int(v):
        return np.int64(v)
    return float(v)


SR_FORMS = ['float', 'float', 'float', 'np.float64', '0-d array', 'int', 'np.int64']


def check_sinusoid(ctx, case):
    from emd import spectra as SP
    method, sr, n, f, A, ph0, ncol = (case[k] for k in ('method', 'sr', 'n', 'f', 'A', 'ph0', 'ncol'))
    if case.get('subnormal'):
        A = float(np.ldexp(1.0 + (A % 1), -1023 - int(A * 7) % 17))
    t = np.arange(n) / sr
    if case.get('exact_zeros'):
        # a sine that starts at phase 0 on a time axis containing t == 0: samples that are exactly 0.0
        t = t - (int(case['exact_zeros']) - 1) * (n // 3) / sr
        x = A * np.sin(2 * np.pi * f * t)
        ph0 = -np.pi / 2
        ctx.count('sinusoids_with_exact_zero_samples', int(np.any(x == 0)))
    else:
        x = A * np.cos(2 * np.pi * f * t + ph0)
    X = np.tile(x[:, None], (1, ncol))
    ctx.case(digest(method, sr, n, f, A, ph0, ncol), True)
    sr_arg = present_scalar(sr, case.get('sr_form', 'float'))
    ctx.count('sample_rate_passed_as:' + case.get('sr_form', 'float'))
    Xin = X.copy()
    if ncol == 1 and case.get('as_vector'):
        Xin = Xin[:, 0]                      # one IMF handed over as a plain vector: the outputs are [samples x 1] all the same
        ctx.count('single_imf_passed_as_vector')
    IP, IF, IA = SP.frequency_transform(Xin, sr_arg, method)
    if not (np.all(np.isfinite(IP)) and np.all(np.isfinite(IF)) and np.all(np.isfinite(IA))):
        ctx.violation('non-finite:' + method, 'frequency_transform(%s) returned non-finite values for a finite sinusoid (%d non-finite amplitudes)'
                      % (method, int((~np.isfinite(IA)).sum())), case)
        return
    ctx.count('sinusoids:' + method)
    if not (IP.shape == IF.shape == IA.shape == X.shape):
        ctx.violation('shape', 'frequency_transform(%s) returned shapes %s %s %s for input %s' % (method, IP.shape, IF.shape, IA.shape, X.shape), case)
        return
    if not ((IP >= 0).all() and (IP < 2 * np.pi).all()):
        ctx.violation('phase-range', 'instantaneous phase outside [0, 2pi): min %.4g max %.4g' % (IP.min(), IP.max()), case)
        return
    if ncol > 1 and not all(np.array_equal(IP[:, 0], IP[:, j]) and np.array_equal(IF[:, 0], IF[:, j]) for j in range(1, ncol)):
        ctx.violation('column-dependence', 'identical columns gave different results', case)
        return
    # derivative consistency
    g = np.gradient(np.unwrap(IP, axis=0), axis=0) * sr / (2 * np.pi)
    d = np.abs(g - IF)[2:-2].max() / f
    ctx.maxi('max_derivative_inconsistency', d)
    if d > 1e-9:
        ctx.violation('derivative', 'IF differs from sr/(2pi)*gradient(unwrap(IP)) by %.3g (relative to f) for %s' % (d, method), case)
        return
    cyc = f * n / sr
    m = int(max(3 * n / cyc, 20))
    sl = slice(m, n - m)
    ef = np.abs(IF[sl, 0] - f) / f
    ea = np.abs(IA[sl, 0] - A) / A
    truep = (2 * np.pi * f * t + ph0 + np.pi / 2) % (2 * np.pi)
    ep = np.abs(np.angle(np.exp(1j * (IP[sl, 0] - truep[sl]))))
    em = abs(np.mean(IF[sl, 0]) - f) / f
    lim = LIM[method]
    obs = {'fmax': ef.max(), 'fmed': np.median(ef), 'amax': ea.max(), 'pmax': ep.max(), 'pmed': np.median(ep)}
    for k, v in obs.items():
        ctx.maxi('%s:%s' % (method, k), v)
    ctx.maxi('%s:mean_if_err' % method, em)
    for k, bound in lim.items():
        if not obs[k] <= bound:
            what = {'f': 'frequency', 'a': 'amplitude', 'p': 'phase'}[k[0]]
            ctx.violation('accuracy:%s:%s' % (method, what),
                          '%s %s error %.4g exceeds %.3g on a pure sinusoid (f=%.4g, sr=%g, n=%d, A=%.3g): interior estimates do not '
                          'recover the %s' % (method, k, obs[k], bound, f, sr, n, A, what), case)
            return
    if not em <= MEAN_IF:
        ctx.violation('accuracy:%s:mean-frequency' % method, '|mean interior IF - f|/f = %.4g > %.3g (f=%.4g, sr=%g): wrong scale factor?'
                      % (em, MEAN_IF, f, sr), case)
        return
    ctx.count('accuracy_ok:' + method)
    if ctx.evaluations % 4 == 0:
        # "any set of IMFs": the same IMF preceded by a column that does not oscillate (a zeroed IMF, a constant, a trend) is
        # transformed exactly as it is on its own
        lead = [np.zeros(n), np.full(n, 1.5 * A), A * t / max(t[-1], 1e-300)][(ctx.evaluations // 4) % 3]
        P2, F2, A2 = SP.frequency_transform(np.column_stack([lead, x]), sr_arg, method)
        ctx.count('sets_with_a_non_oscillating_column')
        if P2.shape != (n, 2) or not (np.array_equal(P2[:, 1], IP[:, 0]) and np.array_equal(F2[:, 1], IF[:, 0]) and np.array_equal(A2[:, 1], IA[:, 0])):
            ctx.violation('column-dependence:non-oscillating-neighbour', 'the transform (%s) of an IMF changes when a column that does not oscillate is placed before it '
                          '(amplitude max diff %s)' % (method, '%.3g' % np.nanmax(np.abs(A2[:, 1] - IA[:, 0])) if A2.shape == (n, 2) else 'n/a'), case)
            return
    if case.get('subnormal'):
        ctx.count('sinusoids_of_subnormal_amplitude')
        return            # (power-of-two rescaling is not exact once samples are rounded to the subnormal grid)
    # exact scale behaviour
    c = case['c']
    IP2, IF2, IA2 = SP.frequency_transform(c * X, sr_arg, method)
    ctx.count('scale_checks')
    if not (np.array_equal(IP2, IP) and np.array_equal(IF2, IF) and np.array_equal(IA2, c * IA)):
        ctx.violation('scale:' + method, 'rescaling the IMF by %g changed phase/frequency or did not scale the amplitude exactly '
                      '(max dIP %.3g, max dIF %.3g, max dIA %.3g)' % (c, np.abs(IP2 - IP).max(), np.abs(IF2 - IF).max(),
                                                                     np.abs(IA2 - c * IA).max() / c), case)


def check_generic(ctx, case):
    """Invariants on non-sinusoidal IMF sets (AM/FM, sifted noise, 3-D stacks)."""
    from emd import spectra as SP
    X, sr, method, c = case['X'], case['sr'], case['method'], case['c']
    ctx.case(digest(X, sr, method), True)
    IP, IF, IA = SP.frequency_transform(X.copy(), sr, method)
    ctx.count('generic:%s:%dd' % (method, X.ndim))
    if not (IP.shape == IF.shape == IA.shape == X.shape):
        ctx.violation('shape', 'frequency_transform(%s) returned shapes %s %s %s for input %s' % (method, IP.shape, IF.shape, IA.shape, X.shape), case)
        return
    if not ((IP >= 0).all() and (IP < 2 * np.pi).all()):
        ctx.violation('phase-range', 'instantaneous phase outside [0, 2pi)', case)
        return
    if case.get('smooth'):
        g = np.gradient(np.unwrap(IP, axis=0), axis=0) * sr / (2 * np.pi)
        d = np.abs(g - IF)[2:-2].max() / max(np.abs(IF).max(), 1e-300)
        if d > 1e-9:
            ctx.violation('derivative', 'IF differs from sr/(2pi)*gradient(unwrap(IP)) on a smooth AM/FM signal (%.3g)' % d, case)
            return
        ctx.count('derivative_checks_amfm')
    IP2, IF2, IA2 = SP.frequency_transform(c * X, sr, method)
    ctx.count('scale_checks')
    if not (np.array_equal(IP2, IP) and np.array_equal(IF2, IF) and np.array_equal(IA2, c * IA)):
        ctx.violation('scale:' + method, 'rescaling the IMFs by %g changed phase/frequency or did not scale the amplitude exactly' % c, case)


def check_roundtrip(ctx, case):
    from emd import spectra as SP
    prof, sr, start = case['profile'], case['sr'], case['phase_start']
    ctx.case(digest(prof, sr, start), True)
    sr_arg = present_scalar(sr, case.get('sr_form', 'float'))
    ph = SP.phase_from_freq(prof.copy(), sr_arg, phase_start=start)
    back = SP.freq_from_phase(ph, sr_arg)
    ctx.count('roundtrips')
    if prof.dtype.kind in 'iu':
        ctx.count('roundtrips_of_integer_profiles')
    prof = np.asarray(prof, dtype=float)        # (the reference works on the same values in float64)
    if back.shape != prof.shape:
        ctx.violation('roundtrip-shape', 'round trip changed the shape %s -> %s' % (prof.shape, back.shape), case)
        return
    want = np.concatenate([prof[1:2], (prof[2:] + prof[1:-1]) / 2, prof[-1:]])
    floor = 64 * np.finfo(float).eps * max(np.abs(ph).max(), 1.0) * sr / (2 * np.pi)   # rounding of the accumulated phase
    err = max(np.abs(back - want).max() - floor, 0.0) / max(np.abs(prof).max(), 1e-300)
    if np.abs(prof).max() > sr / 2:
        ctx.count('roundtrips_beyond_nyquist')
    ctx.maxi('max_roundtrip_err', err)
    if err > 1e-9:
        ctx.violation('roundtrip', 'phase_from_freq -> freq_from_phase does not reproduce the two-sample average of the profile '
                      '(rel err %.3g)' % err, case)
        return
    if np.max(np.abs(ph[0] - (start + prof[0] / sr * 2 * np.pi))) > 1e-9 * max(1, np.max(np.abs(ph[0]))):
        ctx.violation('roundtrip-start', 'phase does not start at phase_start plus the first increment', case)
        return
    if case.get('const'):
        if np.abs(back - prof).max() > 1e-9 * max(np.abs(prof).max(), 1e-300) + floor:
            ctx.violation('roundtrip-const', 'constant profile not reproduced exactly', case)
        else:
            ctx.count('roundtrips_const')


def check_normalise(ctx, case):
    from emd import utils as U
    X, c = case['X'], case['c']
    ctx.case(digest(X, 'norm'), True)
    a = U.amplitude_normalise(X.copy())
    b = U.amplitude_normalise(c * X)
    ctx.count('normalise_checks')
    if a.shape != X.shape:
        ctx.violation('normalise-shape', 'amplitude_normalise changed the shape', case)
        return
    nz = X != 0
    if not np.array_equal(np.sign(a[nz]), np.sign(X[nz])):
        ctx.violation('normalise-sign', 'amplitude_normalise changed the sign of %d samples' % int((np.sign(a[nz]) != np.sign(X[nz])).sum()), case)
        return
    if not np.array_equal(a, b):
        ctx.violation('normalise-scale', 'amplitude_normalise(%g*x) differs from amplitude_normalise(x) (max %.3g)' % (c, np.abs(a - b).max()), case)
        return


KINDS = {'sin': check_sinusoid, 'generic': check_generic, 'rt': check_roundtrip, 'norm': check_normalise}


def gen_case(rng):
    r = rng.random()
    # scale factors 2^k: mostly |k| <= 8, sometimes far out (no under/overflow: amplitudes stay within 1e-14 .. 1e14)
    c = float(np.ldexp(1.0, int(rng.integers(-8, 9)) if rng.random() < .75 else int(rng.integers(-40, 41))))
    if r < .55:
        sr = float(gens.pick(rng, [1, 100, 512, 2000]))
        n = int(gens.pick(rng, [512, 1000, 4000, 4000, 30000])) if rng.random() > .02 else int(gens.pick(rng, [65537, 70001, 100003, 131071]))
        cyc = rng.uniform(10, n / 12)
        sub = {}
        if rng.random() < .03:
            # an IMF whose samples are all subnormal numbers (amplitude 2**-1040 .. 2**-1023): still a finite sinusoid
            sub = {'subnormal': True}
        return {'kind': 'sin', 'method': gens.pick(rng, ['hilbert', 'nht', 'quad']), 'sr': sr, 'n': n, 'f': float(cyc * sr / n),
                'A': float(10 ** rng.uniform(-1.5, 1.5)),
                # (starting phases: anywhere, or exactly on a quarter of a cycle - records that start on a zero crossing or an extremum)
                'ph0': float(rng.uniform(0, 2 * np.pi)) if rng.random() > .15 else float(gens.pick(rng, [0.0, np.pi / 2, np.pi, 3 * np.pi / 2])),
                'ncol': int(rng.integers(1, 4)), 'c': c,
                'sr_form': gens.pick(rng, SR_FORMS), 'exact_zeros': (int(rng.integers(1, 3)) if rng.random() < .12 else 0), 'as_vector': bool(rng.random() < .5), **sub}
    if r < .75:
        sr = float(gens.pick(rng, [1, 100, 512]))
        n = int(gens.pick(rng, [256, 512, 1000]))
        t = np.arange(n)
        if rng.random() < .5:
            cols = [(1 + .4 * np.sin(2 * np.pi * t / n * rng.uniform(1, 3))) * np.sin(2 * np.pi * t / rng.uniform(14, 40) + 1.5 * np.sin(2 * np.pi * t / n * rng.uniform(1, 2)))
                    for _ in range(int(rng.integers(1, 4)))]
            X = np.array(cols).T * float(10 ** rng.uniform(-1, 1))
            smooth = True
        else:
            from emd import sift as S
            X = S.sift(rng.standard_normal(n), max_imfs=3)
            smooth = False
        if rng.random() < .25:
            X = np.stack([X, X[::-1] * .5], axis=2)
            smooth = False
        return {'kind': 'generic', 'X': X, 'sr': sr, 'method': gens.pick(rng, ['hilbert', 'nht', 'quad']), 'c': c, 'smooth': smooth}
    if r < .9:
        n = int(gens.pick(rng, [50, 500, 2000]))
        sr = float(gens.pick(rng, [1, 100, 512]))
        const = rng.random() < .2
        if const:
            prof = np.full(n, rng.uniform(.01, .3) * sr)
        else:
            u = np.linspace(0, rng.uniform(2, 9), n)
            prof = sr * (.1 + .05 * np.sin(u + rng.uniform(0, 6)) + .02 * np.cos(2.3 * u)) + rng.uniform(0, .02) * sr
        r2 = rng.random()
        if r2 < .15:
            prof = prof * float(gens.pick(rng, [4, 7.5]))      # "arbitrary" profiles: beyond half the sample rate
        elif r2 < .25:
            prof = -prof                                       # negative frequencies
        elif r2 < .3 and not const:
            prof = prof - prof.mean()                          # sign-changing profile
        if rng.random() < .3:
            prof = np.tile(prof[:, None], (1, 2)) * np.array([1, 1.5])
        if rng.random() < .15:
            # a profile stored in Hz as integers at an audio-rate sampling frequency (values close to the top of a narrow type)
            sr = float(gens.pick(rng, [44100, 96000, 192000]))
            dt = gens.pick(rng, [np.int16, np.uint16, np.int32, np.int64])
            top = min(np.iinfo(dt).max, sr * .45)
            prof = np.round(np.abs(prof) / max(np.abs(prof).max(), 1e-300) * top * float(rng.uniform(.55, .99))).astype(dt)
            const = False
        return {'kind': 'rt', 'profile': prof, 'sr': sr, 'phase_start': float(gens.pick(rng, [-np.pi, 0.0, 1.0])), 'const': bool(const) and prof.ndim == 1,
                'sr_form': gens.pick(rng, SR_FORMS)}
    n = int(gens.pick(rng, [256, 512]))
    t = np.arange(n)
    sinus = rng.random() < .5
    if sinus:
        X = (float(10 ** rng.uniform(-1, 1)) * np.sin(2 * np.pi * t / rng.uniform(12, 40) + rng.uniform(0, 6)))[:, None]
    else:
        X = ((1 + .5 * np.sin(2 * np.pi * t / n * 2)) * np.sin(2 * np.pi * t / rng.uniform(12, 30)))[:, None] * np.array([[1.0, 3.0]])
    return {'kind': 'norm', 'X': X, 'c': c, 'sinusoid': bool(sinus)}


def run_shard(ctx):
    rng = ctx.rng
    n = NCASES[ctx.tier] // ctx.nshards
    seen = set()
    if ctx.shard % 8 == 3:
        # one very large set of IMFs per run (size-dependent code paths): 720 000 samples x 3 columns
        big = {'kind': 'sin', 'method': gens.pick(rng, ['hilbert', 'nht']), 'sr': 1000.0, 'n': 720000, 'f': float(rng.uniform(20, 80)),
               'A': 2.0, 'ph0': float(rng.uniform(0, 6)), 'ncol': 3, 'c': 4.0, 'sr_form': 'float', 'exact_zeros': 0}
        check_sinusoid(ctx, big)
        ctx.count('very_long_recordings')
    for i in range(n):
        if ctx.out_of_time():
            break
        case = gen_case(rng)
        try:
            with watchdog(60):
                KINDS[case['kind']](ctx, case)
        except WatchdogTimeout:
            ctx.count('watchdog')
        except Exception as e:
            ctx.violation('exception:%s:%s' % (case['kind'], type(e).__name__), '%s case raised %s: %s' % (case['kind'], type(e).__name__, str(e)[:120]), case)
        if case['kind'] not in seen and len(seen) < 4:
            seen.add(case['kind'])
            ctx.sample({k: (np.round(np.asarray(v).reshape(-1)[:4], 4) if isinstance(v, np.ndarray) else v) for k, v in case.items()})


def finalize(agg, tier):
    c = agg['counters']
    r = []
    for m in ['hilbert', 'nht', 'quad']:
        if c.get('accuracy_ok:' + m, 0) < 50:
            r.append('accuracy judged on only %d sinusoids for %s' % (c.get('accuracy_ok:' + m, 0), m))
    for k, need in [('scale_checks', 200), ('roundtrips', 50), ('roundtrips_const', 3), ('normalise_checks', 30), ('derivative_checks_amfm', 10)]:
        if c.get(k, 0) < need:
            r.append('%s: %d < %d' % (k, c.get(k, 0), need))
    return r


def replay(ctx, case):
    KINDS[case['kind']](ctx, case)
