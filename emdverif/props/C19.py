"""C19 - array inputs are layout-insensitive, validated and never modified.

Monitors on the real entry points:
 * layout table: accepted layouts of one signal give array_equal results; rejected layouts raise;
 * length-mismatch table: multi-array routines raise on unequal first-axis lengths;
 * mutation sanitizer: byte-level digest (+shape, dtype, strides, writeable flag) of every ndarray
   argument and a deep digest of every dict / list argument before and after the call, return or raise,
   with read-only input arrays and option dictionaries reused across calls;
 * determinism: every deterministic call repeated once must give an identical result."""
import functools
import json
import os
import subprocess
import sys
import zlib

import numpy as np

from .. import gens
from ..harness import digest, quiet, watchdog, WatchdogTimeout, VERIF, REPO
from ..monitors import call_sanitized, deep_digest, abort_then_call, thread_probe, in_process_pools

EMD_FILES = ('/emd/sift.py', '/emd/spectra.py', '/emd/cycles.py', '/emd/_cycles_support.py', '/emd/utils.py', '/emd/support.py', '/emd/logger.py')

MANIFEST = {
    'text': 'Held on every call executed: 40+ public numeric entry points (six sift variants, single-IMF extraction plain and masked, mask-frequency estimate, envelope and extrema routines, frequency transform and its helpers, three spectra, bin constructors, cycle detection / statistics / alignment / binning / matching / container operations, amplitude normalisation and the other utils; amplitude normalisation and the frequency transform also with the second-level [samples x IMFs x IMFs] layout) are called on seeded inputs made read-only, with option dictionaries shared between successive calls; a byte-level mutation sanitizer compares every array / dict / list argument before and after each call, each deterministic call is repeated and compared, the documented layout table ((n,), (n,1), (n,1,1) accepted and array_equal; (n,2), (1,n), (n,2,3) rejected; vector == single column for transforms and cycle routines) and the length-mismatch table are enforced. Sampling of inputs, complete over the entry-point table. Schedules: the same deterministic calls made from 4-5 threads of one interpreter at once (thread switch every 1-10 microseconds) must reproduce the results obtained alone. Faults: a call abandoned at an arbitrary statement (sys.monitoring failpoint) must leave nothing behind for the next valid call. Returned results of every entry point are held untouched and re-read after later calls. A quarter of the shards run in a session that turns Deprecation/Future/UserWarnings into errors.',
    'note': 'Trusted: numpy digests. An entry point that cannot run on a read-only array because it writes into its input is a violation (that is what the sanitizer is for). is_imf is not in the property\'s entry-point list (and is broken on numpy 2 by an unrelated np.alltrue in a log message).',
    'technique': 'mutation sanitizer + differential layout oracle + repeat-call determinism monitor wrapped around the real entry points',
}
LOGGER_ON_ODD_SHARDS = True
BUDGET_S = {'quick': 70, 'thorough': 420}
ROUNDS = {'quick': 48, 'thorough': 640}
RULE = ('every entry of the entry-point table is called once per round on a fresh seeded signal (read-only arrays, shared option '
        'dicts); rounds are split over the shards; non-trivial = the call returned a result; distinct by (entry point, input digest)')
EXHAUSTIVE = {'quick': False, 'thorough': False}
ASSUMPTIONS = ['amplitudes stay within 1e-6..1e6']

ACCEPT = ['vec', 'col', 'col11']
REJECT = ['two_cols', 'row', 'nd23']


def layout(x, kind):
    n = len(x)
    if kind == 'vec':
        return x.copy()
    if kind == 'col':
        return x[:, None].copy()
    if kind == 'col11':
        return x[:, None, None].copy()
    if kind == 'two_cols':
        return np.stack([x, x[::-1]], axis=1).copy()
    if kind == 'row':
        return x[None, :].copy()
    if kind == 'nd23':
        return np.tile(x[:, None, None], (1, 2, 3)).copy()
    raise ValueError(kind)


POISON = [3.5]
POISON_SIZES = [k for k in range(1, 200)] + [k for k in range(200, 4000, 7)] + [4096, 8192, 16384, 20000, 40000]
WRITABLE = [False]     # every third round hands over ordinary writable arrays (the mutation sanitizer works on digests either way)


def ro(a):
    a = np.array(a, copy=True)
    a.setflags(write=WRITABLE[0])
    return a


def first(out):
    return out[0] if isinstance(out, tuple) else out


def same_result(a, b):
    if isinstance(a, tuple) and isinstance(b, tuple):
        return len(a) == len(b) and all(same_result(u, v) for u, v in zip(a, b))
    if a is None or b is None:
        return a is None and b is None
    if hasattr(a, 'toarray'):
        a, b = a.toarray(), b.toarray()
    a, b = np.asarray(a), np.asarray(b)
    if a.dtype == object or b.dtype == object:
        return a.shape == b.shape and all(same_result(u, v) for u, v in zip(a.reshape(-1), b.reshape(-1)))
    return a.shape == b.shape and np.array_equal(a, b, equal_nan=True)


# ------------------------------------------------------------------------------------------
# entry-point table: name -> builder(rng, shared) returning (func, args, kwargs, deterministic)

def _sorted_range(v):
    v.sort()
    return float(v[-1] - v[0])


def build_table():
    from emd import sift as S, spectra as SP, cycles as C, utils as U, _cycles_support as CS
    T = {}

    def sig(rng, n=160):
        t = np.arange(n)
        return np.sin(2 * np.pi * t / rng.uniform(8, 14)) + .5 * np.sin(2 * np.pi * t / rng.uniform(25, 50) + 1) + .2 * rng.standard_normal(n) + t / n

    def phase(rng):
        return gens.synthetic_phase(rng, ncycles=int(rng.integers(2, 7)))

    def imfs(rng):
        return S.sift(sig(rng), max_imfs=3)

    def optsets(shared):
        return dict(imf_opts=shared['imf_opts'], envelope_opts=shared['envelope_opts'], extrema_opts=shared['extrema_opts'])

    T['sift'] = lambda r, s: (S.sift, (ro(sig(r)),), dict(max_imfs=3, **optsets(s)), True)
    T['mask_sift'] = lambda r, s: (S.mask_sift, (ro(sig(r)),), dict(max_imfs=3, mask_freqs=ro(np.array([.3, .1, .04])), mask_amp=ro(np.array([1., .5, .5])), **optsets(s)), True)
    for _mode in ('ratio_sig', 'abs'):
        T['mask_sift:' + _mode] = (lambda mm: (lambda r, s: (S.mask_sift, (ro(sig(r)),), dict(max_imfs=3, mask_freqs=ro(np.array([.3, .1, .04])), mask_amp=ro(np.array([1., .5, .5])), mask_amp_mode=mm, **optsets(s)), True)))(_mode)
    T['mask_sift_zc'] = lambda r, s: (S.mask_sift, (ro(sig(r)),), dict(max_imfs=2, **optsets(s)), True)
    T['ensemble_sift'] = lambda r, s: (S.ensemble_sift, (ro(sig(r)),), dict(max_imfs=2, nensembles=2, **optsets(s)), 'seeded')
    T['complete_ensemble_sift'] = lambda r, s: (S.complete_ensemble_sift, (ro(sig(r)),), dict(max_imfs=2, nensembles=2, **optsets(s)), 'seeded')
    T['sift_second_layer'] = lambda r, s: (S.sift_second_layer, (ro(np.abs(imfs(r)) + 1),), dict(sift_args=s['second_args']), True)
    T['mask_sift_second_layer'] = lambda r, s: (S.mask_sift_second_layer, (ro(np.abs(imfs(r)) + 1), s['mask_freqs_list']), dict(sift_args=s['second_args']), True)
    T['get_next_imf'] = lambda r, s: (S.get_next_imf, (ro(sig(r)),), dict(envelope_opts=s['envelope_opts'], extrema_opts=s['extrema_opts'], **s['imf_opts']), True)
    T['get_next_imf_mask'] = lambda r, s: (S.get_next_imf_mask, (ro(sig(r)), .2, .7), optsets(s), True)
    T['get_mask_freqs'] = lambda r, s: (S.get_mask_freqs, (ro(sig(r))[:, None], 'zc'), dict(imf_opts=s['imf_opts']), True)
    T['interp_envelope'] = lambda r, s: (S.interp_envelope, (ro(sig(r)),), dict(mode=gens.pick(r, ['upper', 'lower', 'combined']), interp_method='pchip', extrema_opts=s['extrema_opts']), True)
    T['get_padded_extrema'] = lambda r, s: (S.get_padded_extrema, (ro(sig(r)),), dict(pad_width=3, mag_pad_opts=s['mag_pad_opts'], loc_pad_opts=s['loc_pad_opts']), True)
    T['compute_parabolic_extrema'] = lambda r, s: (S.compute_parabolic_extrema, (ro(np.array([[0., 1.], [2., 3.], [1., 1.5]])), ro(np.array([4, 9]))), {}, True)
    T['zero_crossing_count'] = lambda r, s: (S.zero_crossing_count, (ro(sig(r)),), {}, True)
    for m in ('hilbert', 'nht', 'quad'):
        T['frequency_transform:' + m] = (lambda mm: (lambda r, s: (SP.frequency_transform, (ro(imfs(r)), 100., mm), {}, True)))(m)
    T['quadrature_transform'] = lambda r, s: (SP.quadrature_transform, (ro(imfs(r)),), {}, True)
    T['phase_from_complex_signal'] = lambda r, s: (SP.phase_from_complex_signal, (ro(imfs(r) + 1j * imfs(r)[::-1]),), dict(smoothing=5), True)
    T['freq_from_phase'] = lambda r, s: (SP.freq_from_phase, (ro(np.cumsum(r.uniform(0, 1, (100, 2)), axis=0)), 50.), {}, True)
    T['phase_from_freq'] = lambda r, s: (SP.phase_from_freq, (ro(r.uniform(1, 5, (100, 2))), 50.), {}, True)

    def hht_args(r):
        f = r.uniform(0, 12, (60, 3))
        a = r.uniform(0, 2, (60, 3))
        return ro(f), ro(a), ro(np.linspace(1, 10, 7))
    T['hilberthuang'] = lambda r, s: (SP.hilberthuang, hht_args(r), dict(mode='energy'), True)
    T['hilberthuang_sparse'] = lambda r, s: (SP.hilberthuang, hht_args(r), dict(mode='amplitude', return_sparse=True), True)
    T['hilberthuang_1d'] = lambda r, s: (SP.hilberthuang_1d, hht_args(r), {}, True)

    def hht_inrange_args(r):
        # every frequency inside the bin range (nothing for the routine to filter out)
        return ro(r.uniform(1.2, 9.8, (60, 3))), ro(r.uniform(.1, 2, (60, 3))), ro(np.linspace(1, 10, 7))
    T['hilberthuang_sparse:all_in_range'] = lambda r, s: (SP.hilberthuang, hht_inrange_args(r), dict(mode='amplitude', return_sparse=True), True)
    T['hilberthuang:all_in_range'] = lambda r, s: (SP.hilberthuang, hht_inrange_args(r), dict(mode=gens.pick(r, ['amplitude', 'energy'])), True)
    T['holospectrum'] = lambda r, s: (SP.holospectrum, (ro(r.uniform(0, 12, (40, 2))), ro(r.uniform(0, 4, (40, 2, 3))), ro(r.uniform(0, 2, (40, 2, 3))),
                                                        ro(np.linspace(1, 10, 5)), ro(np.linspace(.5, 3, 4))), dict(squash_time=gens.pick(r, [False, 'sum', 'mean'])), True)
    # the same routines on data with missing values (NaN amplitudes / values, as produced by masking or projecting cycles):
    # whatever they compute from them, the arrays passed in are still the caller's

    def hht_nan_args(r):
        f, a, e = hht_args(r)
        a = np.array(a)
        a[r.integers(0, 60, 5), r.integers(0, 3, 5)] = np.nan
        return f, ro(a), e
    T['hilberthuang:nan_amplitudes'] = lambda r, s: (SP.hilberthuang, hht_nan_args(r), dict(mode=gens.pick(r, ['energy', 'amplitude'])), True)
    T['hilberthuang_1d:nan_amplitudes'] = lambda r, s: (SP.hilberthuang_1d, hht_nan_args(r), {}, True)

    def holo_nan(r, s):
        a2 = r.uniform(0, 2, (40, 2, 3))
        a2[r.integers(0, 40, 4), r.integers(0, 2, 4), r.integers(0, 3, 4)] = np.nan
        return (SP.holospectrum, (ro(r.uniform(0, 12, (40, 2))), ro(r.uniform(0, 4, (40, 2, 3))), ro(a2), ro(np.linspace(1, 10, 5)), ro(np.linspace(.5, 3, 4))),
                dict(squash_time=gens.pick(r, [False, 'sum', 'mean'])), True)
    T['holospectrum:nan_amplitudes'] = holo_nan
    T['define_hist_bins_from_data'] = lambda r, s: (SP.define_hist_bins_from_data, (ro(r.uniform(1, 9, 50)),), {}, True)
    T['get_cycle_vector'] = lambda r, s: (C.get_cycle_vector, (ro(phase(r)),), dict(return_good=bool(r.random() < .5)), True)

    def gcv_mask(r, s):
        p = phase(r)
        return (C.get_cycle_vector, (ro(p),), dict(return_good=True, mask=ro(r.random(len(p)) > .05)), True)
    T['get_cycle_vector_mask'] = gcv_mask

    def gcs(r, s):
        lab = gens.label_vector(r)
        return (C.get_cycle_stat, (ro(lab), ro(r.standard_normal(len(lab)))), dict(func=np.max, out=gens.pick(r, [None, 'samples'])), True)
    T['get_cycle_stat'] = gcs

    def gcs_nan(r, s):
        lab = gens.label_vector(r)
        v = r.standard_normal(len(lab))
        v[r.integers(0, len(lab), 3)] = np.nan
        return (C.get_cycle_stat, (ro(lab), ro(v)), dict(func=gens.pick(r, [np.max, np.nanmean, np.sum]), out=gens.pick(r, [None, 'samples'])), True)
    T['get_cycle_stat:nan_values'] = gcs_nan

    def gcs_inplace(r, s):
        # a reducer that rearranges the vector it is handed (legal: it is handed its own copy of the cycle's samples)
        lab = gens.label_vector(r)
        f = gens.pick(r, [functools.partial(np.median, overwrite_input=True), _sorted_range])
        return (C.get_cycle_stat, (ro(lab), ro(r.standard_normal(len(lab)))), dict(func=f, out=gens.pick(r, [None, 'samples'])), True)
    T['get_cycle_stat:inplace_reducer'] = gcs_inplace

    def bbp_nan(r, s):
        p = r.uniform(0, 2 * np.pi, 200)
        v = r.standard_normal((200, 2))
        v[r.integers(0, 200, 4), r.integers(0, 2, 4)] = np.nan
        return (C.bin_by_phase, (ro(p), ro(v)), dict(nbins=8), True)
    T['bin_by_phase:nan_values'] = bbp_nan

    def pal_nan(r, s):
        p = phase(r)
        v = np.sin(p)
        v[r.integers(0, len(p), 3)] = np.nan
        return (C.phase_align, (ro(p), ro(v)), dict(npoints=12), True)
    T['phase_align:nan_values'] = pal_nan

    def an_nan(r, s):
        v = imfs(r)
        return (U.amplitude_normalise, (ro(v),), dict(clip=True, interp_method=gens.pick(r, ['pchip', 'mono_pchip', 'splrep'])), True)
    T['amplitude_normalise:interp_methods'] = an_nan

    def pal(r, s):
        p = phase(r)
        return (C.phase_align, (ro(p), ro(np.sin(p))), dict(npoints=12), True)
    T['phase_align'] = pal

    def pal_looper(r, s):
        # the cycles argument as the iterator a container hands out for a selection of its cycles
        p = gens.synthetic_phase(r, ncycles=int(r.integers(8, 16)))
        with quiet():
            cy = C.Cycles(ro(p), compute_timings=True)
        thr = int(np.median(cy.metrics['duration']))

        def run(ph, vals):
            with quiet():
                return C.phase_align(ph, vals, cycles=cy.iterate(conditions='duration>%d' % thr), npoints=int(12))
        return (run, (ro(p), ro(np.sin(p) + .1 * r.standard_normal(len(p)))), {}, True)
    T['phase_align:conditions_looper'] = pal_looper

    def bbp(r, s):
        p = r.uniform(0, 2 * np.pi, 200)
        return (C.bin_by_phase, (ro(p), ro(r.standard_normal((200, 2)))), dict(nbins=8), True)
    T['bin_by_phase'] = bbp
    T['kdt_match'] = lambda r, s: (C.kdt_match, (ro(r.standard_normal((30, 2))), ro(r.standard_normal((60, 2)))), dict(K=4), True)
    T['is_good'] = lambda r, s: (C.is_good, (ro(np.sort(r.uniform(0, 2 * np.pi, 20))),), {}, True)
    T['get_subset_vector'] = lambda r, s: (C.get_subset_vector, (ro(r.random(12) > .5),), {}, True)
    T['get_chain_vector'] = lambda r, s: (C.get_chain_vector, (ro(C.get_subset_vector(r.random(12) > .4)),), {}, True)
    T['get_control_points'] = lambda r, s: (C.get_control_points, (ro(np.sin(np.linspace(0, 12 * np.pi, 300) + .3)), ro(C.get_cycle_vector(np.mod(np.linspace(0, 12 * np.pi, 300) + .3 + np.pi / 2, 2 * np.pi), return_good=False).reshape(-1))), {}, True)

    def cyc_ops(r, s):
        p = phase(r)

        def run(ph, vals, per_cycle):
            with quiet():
                cy = C.Cycles(ph)
                cy.compute_cycle_metric('mx', vals, np.max)
                cy.compute_cycle_metric('aug', vals, np.mean, mode='augmented')
                cy.add_cycle_metric('q', per_cycle[:cy.ncycles], dtype=int)
                cy.compute_cycle_timings()
                cy.pick_cycle_subset(s['conditions'])
                cy.compute_chain_timings()
                return tuple(np.asarray(cy.metrics[k], dtype=float) for k in sorted(cy.metrics))
        q = np.round(r.standard_normal(40), 0)
        q[int(r.integers(3))] = np.nan
        return (run, (ro(p), ro(r.standard_normal(len(p))), ro(q)), {}, True)
    T['Cycles_operations'] = cyc_ops

    def cyc_sequence(r, s):
        p = phase(r)
        xs = np.sin(p)

        def run(ph, x):
            # the same container handed to several routines in turn: a repeated call must repeat its result
            with quiet():
                cy = C.Cycles(ph)
                a = C.get_control_points(x, cy)
                st1 = C.get_cycle_stat(cy, x, func=np.max)
                C.get_cycle_stat(cy, x, mode='augmented', func=np.mean)
                C.phase_align(ph, x, cycles=cy, npoints=8)
                C.get_control_points(x, cy, mode='augmented')
                b = C.get_control_points(x, cy)
                st2 = C.get_cycle_stat(cy, x, func=np.max)
                inds = [None if i is None else np.asarray(i) for _, i in cy]
            if not (same_result(a, b) and same_result(st1, st2)):
                raise AssertionError('repeating a default-mode call on the same Cycles object after augmented-mode calls gives a different result')
            if any(i is None for i in inds) or np.concatenate(inds).tolist() != list(range(len(ph))):
                raise AssertionError('iterating the container no longer yields the plain cycles')
            return a, st1
        return (run, (ro(p), ro(xs)), {}, True)
    T['Cycles_object_call_sequence'] = cyc_sequence

    def cyc_match(r, s):
        p = gens.synthetic_phase(r, ncycles=int(r.integers(8, 20)))

        def run(ph, vals, conds):
            with quiet():
                cy = C.Cycles(ph, compute_timings=True)
                cy.compute_cycle_metric('max_amp', vals, np.max)
                sep = cy.get_matching_cycles(conds, ret_separate=True)
                single = [cy.get_matching_cycles(c) for c in conds]
            for j, c in enumerate(conds):
                if np.asarray(sep).shape[1] != len(conds) or not np.array_equal(np.asarray(sep)[:, j].astype(bool), np.asarray(single[j]).astype(bool).reshape(-1)):
                    raise AssertionError('column %d of the separate matches is not the match for condition %d (%s)' % (j, j, c))
            return np.asarray(sep, dtype=float), cy.get_matching_cycles(conds)
        conds = ['is_good==1', 'duration>%d' % int(r.integers(8, 30)), 'max_amp>%.2f' % float(r.uniform(-.5, 1)), 'start_sample>%d' % int(r.integers(10, 200))]
        return (run, (ro(p), ro(r.standard_normal(len(p))), [conds[i] for i in r.permutation(4)[:int(r.integers(2, 5))]]), {}, True)
    T['Cycles_matching_separate'] = cyc_match
    T['project_cycles_to_samples'] = lambda r, s: (CS.project_cycles_to_samples, (ro(np.arange(4.)), ro(np.repeat(np.arange(4), 3))), {}, True)
    T['amplitude_normalise'] = lambda r, s: (U.amplitude_normalise, (ro(imfs(r)),), dict(clip=bool(r.random() < .5)), True)
    def imfs3(r):
        # second-level layout [samples x IMFs x second-level IMFs] (the amplitude envelopes' own components)
        m = imfs(r)
        t = np.arange(m.shape[0])
        return np.stack([m * (1 + .3 * np.sin(t / float(r.uniform(10, 30)))[:, None]), m * float(r.uniform(.5, 2))], axis=2)
    T['amplitude_normalise:3d'] = lambda r, s: (U.amplitude_normalise, (ro(imfs3(r)),), dict(clip=bool(r.random() < .5)), True)
    T['frequency_transform:nht:3d'] = lambda r, s: (SP.frequency_transform, (ro(imfs3(r)), 100., gens.pick(r, ['nht', 'hilbert', 'quad'])), {}, True)
    T['wrap_phase'] = lambda r, s: (U.wrap_phase, (ro(np.cumsum(r.uniform(0, 1, 100))),), {}, True)
    T['est_orthogonality'] = lambda r, s: (U.est_orthogonality, (ro(imfs(r)),), {}, True)
    T['find_extrema_locked_epochs'] = lambda r, s: (U.find_extrema_locked_epochs, (ro(sig(r)), 10), {}, True)
    T['apply_epochs'] = lambda r, s: (U.apply_epochs, (ro(imfs(r)), ro(np.array([[5, 15], [40, 50]]))), {}, True)
    return T


def shared_opts():
    return {'imf_opts': {'stop_method': 'rilling', 'rilling_thresh': (0.1, 0.8, 0.1), 'env_step_size': .7},
            'envelope_opts': {'interp_method': 'mono_pchip'},
            'extrema_opts': {'pad_width': 3, 'mag_pad_opts': {'mode': 'mean', 'stat_length': 2}},
            'mag_pad_opts': {'mode': 'mean', 'stat_length': 2}, 'loc_pad_opts': {'mode': 'reflect', 'reflect_type': 'odd'},
            'second_args': {'imf_opts': {'stop_method': 'fixed', 'max_iters': 3}},
            'mask_freqs_list': [0.25, 0.1, 0.04, 0.02, 0.01], 'conditions': ['is_good>=0', 'duration>3']}


def scribble(o):
    """Overwrite every writable ndarray reachable from a result; returns how many were overwritten."""
    n = 0
    if isinstance(o, np.ndarray):
        if o.flags.writeable and o.size and o.dtype.kind in 'fiub':
            try:
                o[...] = (np.nan if o.dtype.kind == 'f' else 1)
                n += 1
            except (ValueError, TypeError):
                pass
    elif hasattr(o, 'toarray') and hasattr(o, 'data') and isinstance(o.data, np.ndarray):
        # a sparse result: its stored values are the caller's too (in-place arithmetic such as `s /= s.sum()` writes them)
        if o.data.flags.writeable and o.data.size:
            o.data[...] = np.nan
            n += 1
    elif isinstance(o, (tuple, list)):
        for v in o:
            n += scribble(v)
    elif isinstance(o, dict):
        for v in o.values():
            n += scribble(v)
    return n


def session_activity(rng):
    """Unrelated things a session does between two identical calls: none of it may change the second result."""
    from emd import sift as S, cycles as C
    with quiet():
        cfg = S.get_config(gens.pick(rng, ['sift', 'mask_sift', 'ensemble_sift']))
        # edits of a private configuration object (different values every time) ...
        cfg['extrema_opts/mag_pad_opts/stat_length'] = int(rng.integers(2, 6))
        cfg['extrema_opts/mag_pad_opts/mode'] = gens.pick(rng, ['mean', 'maximum', 'minimum', 'median'])
        cfg['imf_opts/sd_thresh'] = float(rng.uniform(.2, .5))
        cfg['envelope_opts']['interp_method'] = gens.pick(rng, ['pchip', 'mono_pchip'])
        cfg['extrema_opts']['loc_pad_opts']['new_key'] = 1
        del cfg['extrema_opts']['loc_pad_opts']['new_key']
        cy = C.Cycles(gens.synthetic_phase(rng, ncycles=4))        # ... and an unrelated container
        cy.compute_cycle_timings()
        np.random.seed(int(rng.integers(2 ** 31)))                # ... and whatever happened to the global RNG


DEFAULTS = {}


def run_entry(ctx, name, build, rng, shared, round_seed):
    from emd import sift as S_
    if not DEFAULTS and not ctx.replaying:
        import copy as _c
        DEFAULTS.update({k: _c.deepcopy(dict(S_.get_config(k).store)) for k in ('sift', 'mask_sift', 'ensemble_sift', 'complete_ensemble_sift')})
    func, args, kwargs, det = build(rng, shared)
    dig = digest(name, *[a for a in args if isinstance(a, np.ndarray)])
    shared_before = deep_digest(shared)

    def call():
        # heap poisoning: freshly freed memory of many sizes holds a value that changes from call to call, so that a result read
        # from uninitialised memory (np.empty not completely filled) differs between the call and its repetition
        POISON[0] += 1.75
        junk = [np.full(k, POISON[0]) for k in POISON_SIZES]
        del junk
        if det == 'seeded':
            st = np.random.get_state()
            np.random.seed(round_seed)
        try:
            with quiet():
                return func(*args, **kwargs)
        finally:
            if det == 'seeded':
                np.random.set_state(st)
    case = {'kind': 'entry', 'entry': name, 'round_seed': round_seed}
    try:
        with watchdog(120):
            res, exc, mutated = call_sanitized(lambda *a, **k: call(), args, kwargs)
    except WatchdogTimeout:
        ctx.count('watchdog')
        ctx.case(dig, False)
        return
    ctx.case(dig, exc is None)
    ctx.count('entry_calls')
    ctx.add('entry_points_called', name)
    if mutated:
        ctx.violation('mutated:%s:%s' % (name, mutated[0]), '%s modified its argument(s) %s' % (name, mutated), case)
        return
    if deep_digest(shared) != shared_before:
        changed = [k for k in shared if deep_digest(shared[k]) != dict(zip(shared, [None] * len(shared))).get(k, None) and False]
        ctx.violation('mutated:%s:shared-option-dict' % name, '%s modified an option dictionary passed to it (nested)' % name, case)
        return
    if exc is not None:
        ro_err = isinstance(exc, ValueError) and 'read-only' in str(exc)
        key = 'writes-into-input:%s' % name if ro_err else 'exception:%s:%s' % (name, type(exc).__name__)
        ctx.violation(key, '%s raised %s: %s on valid read-only input' % (name, type(exc).__name__, str(exc)[:120]), case)
        return
    ctx.count('sanitized_calls_ok')
    if DEFAULTS and deep_digest({k: dict(S_.get_config(k).store) for k in DEFAULTS}) != deep_digest(DEFAULTS):
        ctx.violation('defaults-changed', 'get_config() no longer returns the default options it returned at the start of the session '
                      '(something edited a shared default in place)', case)
        DEFAULTS.clear()
        return
    if det:
        # what the caller does with a result is the caller's business: keep a copy, then overwrite every returned array in
        # place - if a result aliases internal state (a cache, a module-level default, ...) the repeated call shows it
        import copy as _copy
        kept = _copy.deepcopy(res) if not hasattr(res, 'toarray') else res.copy()
        before_scribble = [deep_digest(a) for a in args], {k: deep_digest(v) for k, v in kwargs.items()}
        scribbled = scribble(res)
        ctx.count('returned_arrays_scribbled', scribbled)
        after = [deep_digest(a) for a in args], {k: deep_digest(v) for k, v in kwargs.items()}
        if after != before_scribble:
            ctx.violation('result-aliases-input:%s' % name, 'overwriting the arrays RETURNED by %s changed an argument that had been passed to it: the result '
                          'shares memory with the caller\'s input (so repeating the call after in-place arithmetic on the result gives a different result)' % name, case)
            return
        res = kept
        session_activity(rng)
        try:
            with watchdog(120):
                res2 = call()
        except WatchdogTimeout:
            ctx.count('watchdog')
            return
        ctx.count('repeat_calls')
        if not same_result(res, res2):
            ctx.violation('nondeterministic:%s' % name, 'repeating %s on the same input gave a different result' % name, case)
            return
        # a result belongs to the caller once returned: it is kept (untouched) while the same routine runs again on other data
        d2 = result_digest(res2)
        try:
            with watchdog(120), quiet():
                f3, a3, k3, _ = build(np.random.default_rng([round_seed, 77]), shared)
                if det == 'seeded':
                    st = np.random.get_state()
                    np.random.seed(round_seed + 1)
                try:
                    f3(*a3, **k3)
                finally:
                    if det == 'seeded':
                        np.random.set_state(st)
        except WatchdogTimeout:
            ctx.count('watchdog')
            return
        except Exception:
            pass
        ctx.count('held_results_rechecked')
        if result_digest(res2) != d2:
            ctx.violation('result-changed-after-return:%s' % name, 'a result returned by %s (and not touched by the caller) changed when %s was called again on '
                          'other data: the returned arrays are not the caller\'s own' % (name, name), case)
            return
        # an abandoned call (Ctrl-C, MemoryError, a raising callback ... at an arbitrary statement) must leave nothing behind
        if (round_seed + zlib.crc32(name.encode())) % 5 == 0 and det is True:
            def aborted():
                with quiet():
                    f3(*a3, **k3)
            try:
                with watchdog(240):
                    nlines, outs = abort_then_call(EMD_FILES, aborted, call, 3, rng)
            except WatchdogTimeout:
                ctx.count('watchdog')
                return
            ctx.count('aborted_calls_followed_by_a_valid_call', len(outs))
            for where, got in outs:
                if isinstance(got, Exception) or not same_result(res, got):
                    ctx.violation('state-left-by-aborted-call:%s' % name, 'after a %s call was abandoned at %s:%d (%s), the next valid call %s'
                                  % (name, where[0].rsplit('/', 1)[-1], where[2], where[1], 'raised %s: %s' % (type(got).__name__, str(got)[:80])
                                     if isinstance(got, Exception) else 'returned a different result than before'), case)
                    return


# layout table ------------------------------------------------------------------------------

def layout_checks(ctx, rng, shared, round_seed):
    from emd import sift as S, spectra as SP, cycles as C
    n = 96
    t = np.arange(n)
    x = np.sin(2 * np.pi * t / 9) + .4 * np.sin(2 * np.pi * t / 31) + .2 * rng.standard_normal(n) + t / n
    opts = dict(imf_opts=shared['imf_opts'], envelope_opts=shared['envelope_opts'], extrema_opts=shared['extrema_opts'])

    def seeded(f):
        def g(v):
            st = np.random.get_state()
            np.random.seed(round_seed)
            try:
                return f(v)
            finally:
                np.random.set_state(st)
        return g
    single = {
        'sift': lambda v: S.sift(v, max_imfs=3, **opts),
        'get_next_imf': lambda v: S.get_next_imf(v, envelope_opts=opts['envelope_opts'], extrema_opts=opts['extrema_opts'], **opts['imf_opts']),
        'get_next_imf_mask': lambda v: S.get_next_imf_mask(v, .2, .5, **opts),
        'mask_sift': lambda v: S.mask_sift(v, max_imfs=2, mask_freqs=.25, **opts),
        'ensemble_sift': seeded(lambda v: S.ensemble_sift(v, max_imfs=2, nensembles=2, **opts)),
        'complete_ensemble_sift': seeded(lambda v: S.complete_ensemble_sift(v, max_imfs=2, nensembles=2, **opts)),
    }
    for name, f in single.items():
        base = None
        for lay in ACCEPT:
            case = {'kind': 'layout', 'routine': name, 'layout': lay, 'round_seed': round_seed}
            try:
                with quiet(), watchdog(120):
                    out = f(ro(layout(x, lay)))
            except WatchdogTimeout:
                ctx.count('watchdog')
                continue
            except Exception as e:
                ctx.violation('layout-rejected:%s:%s' % (name, lay), '%s rejected the accepted layout %s: %s: %s' % (name, lay, type(e).__name__, str(e)[:100]), case)
                continue
            ctx.count('layout_accept_checks')
            if base is None:
                base = out
            elif not same_result(base, out):
                ctx.violation('layout-differs:%s:%s' % (name, lay), '%s gives a different result for layout %s than for a vector' % (name, lay), case)
        for lay in REJECT:
            case = {'kind': 'layout', 'routine': name, 'layout': lay, 'round_seed': round_seed}
            try:
                with quiet(), watchdog(120):
                    out = f(ro(layout(x, lay)))
            except WatchdogTimeout:
                ctx.count('watchdog')
                continue
            except Exception:
                ctx.count('layout_reject_checks')
                continue
            ctx.violation('layout-accepted:%s:%s' % (name, lay), '%s processed multi-column / wrongly oriented input of shape %s instead of '
                          'rejecting it (returned %s)' % (name, layout(x, lay).shape, getattr(first(out), 'shape', None)), case)
        if base is not None:
            # a rejected call must leave nothing behind: the accepted layout still gives the same result afterwards
            try:
                with quiet(), watchdog(120):
                    again = f(ro(layout(x, 'vec')))
                ctx.count('calls_repeated_after_rejected_input')
                if not same_result(base, again):
                    ctx.violation('state-after-rejection:%s' % name, '%s gives a different result after calls that were rejected for their layout' % name,
                                  {'kind': 'layout', 'routine': name, 'layout': 'after-reject', 'round_seed': round_seed})
            except WatchdogTimeout:
                ctx.count('watchdog')
            except Exception as e:
                ctx.violation('state-after-rejection:%s' % name, '%s fails (%s) after calls that were rejected for their layout' % (name, type(e).__name__),
                              {'kind': 'layout', 'routine': name, 'layout': 'after-reject', 'round_seed': round_seed})
    # vector == single column
    ph = gens.synthetic_phase(rng, ncycles=5)
    lab = C.get_cycle_vector(ph, return_good=False).reshape(-1)
    vals = rng.standard_normal(len(ph))
    pairs = {
        'frequency_transform': (lambda v: SP.frequency_transform(v, 100., 'hilbert'), x),
        'interp_envelope': (lambda v: S.interp_envelope(v, extrema_opts=shared['extrema_opts']), x),
        'get_padded_extrema': (lambda v: S.get_padded_extrema(v, pad_width=2), x),
        'get_cycle_vector': (lambda v: C.get_cycle_vector(v, return_good=True), ph),
        'get_cycle_stat': (lambda v: C.get_cycle_stat(lab, v, func=np.mean), vals),
        'phase_align': (lambda v: C.phase_align(v, np.sin(ph), npoints=8), ph),
        'Cycles': (lambda v: np.asarray(C.Cycles(v, compute_timings=True).metrics['duration']), ph),
    }
    for name, (f, data) in pairs.items():
        case = {'kind': 'veccol', 'routine': name, 'round_seed': round_seed}
        try:
            with quiet():
                a = f(ro(data))
                b = f(ro(data[:, None]))
        except Exception as e:
            ctx.violation('veccol-exception:%s' % name, '%s raised %s: %s for vector / single-column input' % (name, type(e).__name__, str(e)[:100]), case)
            continue
        ctx.count('vector_vs_column_checks')
        ra = tuple(np.asarray(u).reshape(-1) for u in (a if isinstance(a, tuple) else (a,)) if u is not None)
        rb = tuple(np.asarray(u).reshape(-1) for u in (b if isinstance(b, tuple) else (b,)) if u is not None)
        if not same_result(ra, rb):
            ctx.violation('veccol-differs:%s' % name, '%s gives different values for a vector and for the same data as a single column' % name, case)
    # mismatched lengths
    f60, a60, a59 = rng.uniform(0, 12, (60, 2)), rng.uniform(0, 2, (60, 2)), rng.uniform(0, 2, (59, 2))
    e = np.linspace(1, 10, 5)
    mism = {
        'hilberthuang': lambda: SP.hilberthuang(ro(f60), ro(a59), e),
        'hilberthuang_1d': lambda: SP.hilberthuang_1d(ro(f60), ro(a59), e),
        'holospectrum': lambda: SP.holospectrum(ro(f60), ro(rng.uniform(0, 4, (59, 2, 2))), ro(rng.uniform(0, 1, (59, 2, 2))), e, e),
        'holospectrum:amp': lambda: SP.holospectrum(ro(f60), ro(rng.uniform(0, 4, (60, 2, 2))), ro(rng.uniform(0, 1, (59, 2, 2))), e, e),
        'get_cycle_vector(mask)': lambda: C.get_cycle_vector(ro(ph), mask=ro(np.ones(len(ph) - 1, dtype=bool))),
        'get_cycle_stat': lambda: C.get_cycle_stat(ro(lab), ro(vals[:-1])),
        'phase_align': lambda: C.phase_align(ro(ph), ro(vals[:-1])),
        'phase_align(cycles)': lambda: C.phase_align(ro(ph), ro(vals), cycles=ro(lab[:-1])),
        'bin_by_phase': lambda: C.bin_by_phase(ro(ph), ro(vals[:-1])),
        'bin_by_phase(longer)': lambda: C.bin_by_phase(ro(ph), ro(np.r_[vals, vals[:3]])),
        'get_cycle_stat(longer)': lambda: C.get_cycle_stat(ro(lab), ro(np.r_[vals, vals[:5]])),
        'get_cycle_stat(Cycles,longer)': lambda: C.get_cycle_stat(C.Cycles(ph.copy()), ro(np.r_[vals, vals[:5]])),
        'get_cycle_stat(Cycles,shorter)': lambda: C.get_cycle_stat(C.Cycles(ph.copy()), ro(vals[:-4])),
        'phase_align(Cycles,longer)': lambda: C.phase_align(ro(np.r_[ph, ph[:7]]), ro(np.r_[vals, vals[:7]]), cycles=C.Cycles(ph.copy())),
        'phase_align(longer x)': lambda: C.phase_align(ro(ph), ro(np.r_[vals, vals[:2]])),
        'get_control_points(Cycles,longer)': lambda: C.get_control_points(ro(np.r_[np.sin(ph), 0., 0., 0.]), C.Cycles(ph.copy())),
        'hilberthuang(longer)': lambda: SP.hilberthuang(ro(f60), ro(np.r_[a60, a60[:1]]), e),
        # mismatches in which something else happens to agree: the same number of elements (a transposed array), one axis longer and
        # the other shorter, an extra column
        'hilberthuang(transposed amplitudes)': lambda: SP.hilberthuang(ro(f60), ro(a60.T), e),
        'hilberthuang(transposed, sparse)': lambda: SP.hilberthuang(ro(f60[:7]), ro(a60[:7].T), e, return_sparse=True),
        'hilberthuang(61x1 vs 60x2)': lambda: SP.hilberthuang(ro(f60), ro(rng.uniform(0, 2, (61, 1))), e),
        'hilberthuang(extra column)': lambda: SP.hilberthuang(ro(f60), ro(rng.uniform(0, 2, (60, 3))), e),
        'holospectrum(transposed first level)': lambda: SP.holospectrum(ro(f60.T), ro(rng.uniform(0, 4, (60, 2, 2))), ro(rng.uniform(0, 1, (60, 2, 2))), e, e),
    }
    for name, f in mism.items():
        case = {'kind': 'mismatch', 'routine': name, 'round_seed': round_seed}
        try:
            with quiet():
                out = f()
        except Exception:
            ctx.count('mismatch_reject_checks')
            continue
        ctx.violation('mismatch-accepted:%s' % name, '%s processed arrays of different lengths instead of rejecting them' % name, case)


def one_round(ctx, table, round_seed, only=None):
    WRITABLE[0] = (round_seed % 3 == 2)
    ctx.count('rounds_with_writable_arrays' if WRITABLE[0] else 'rounds_with_read_only_arrays')
    rng = np.random.default_rng([ctx.seed, 19, round_seed])
    shared = shared_opts()
    ref = deep_digest(shared)
    for name in sorted(table):
        if only and name != only:
            continue
        try:
            run_entry(ctx, name, table[name], rng, shared, round_seed)
        except Exception as e:
            ctx.violation('harness-error:%s' % name, 'building/running entry %s failed: %s: %s' % (name, type(e).__name__, str(e)[:150]), {'kind': 'entry', 'entry': name, 'round_seed': round_seed})
    if not only:
        layout_checks(ctx, rng, shared, round_seed)
    if deep_digest(shared) != ref:
        ctx.violation('mutated:shared-option-dict', 'an option dictionary shared across the calls of one round was modified', {'kind': 'round', 'round_seed': round_seed})
    ctx.count('rounds')


def result_digest(res):
    if hasattr(res, 'toarray'):
        res = res.toarray()
    if isinstance(res, (tuple, list)):
        return [result_digest(v) for v in res]
    if isinstance(res, dict):
        return {str(k): result_digest(res[k]) for k in sorted(res, key=str)}
    if res is None:
        return None
    a = np.asarray(res)
    if a.dtype == object:
        return [result_digest(v) for v in a.reshape(-1)]
    return [digest(np.ascontiguousarray(a)), list(a.shape)]


def entry_digests(table, round_seed):
    """Every deterministic entry called once on inputs that depend only on (round_seed, entry name): name -> result digest."""
    out = {}
    for name in sorted(table):
        rng = np.random.default_rng([round_seed, zlib.crc32(name.encode())])
        try:
            func, args, kwargs, det = table[name](rng, shared_opts())
            st = np.random.get_state()
            np.random.seed(round_seed)
            try:
                with quiet():
                    out[name] = result_digest(func(*args, **kwargs))
            finally:
                np.random.set_state(st)
        except Exception as e:
            out[name] = 'exception:' + type(e).__name__
    return out


def interpreter_probe(ctx, table, round_seed):
    """"Repeating a deterministic call gives an identical result" across interpreters: the same calls in fresh interpreters that
    differ only in what a user does not control (the string-hash seed of the interpreter) must reproduce the digests obtained here."""
    here = entry_digests(table, round_seed)
    for hs in ('random', str(1 + round_seed)):
        env = dict(os.environ, EMD_REPO=REPO, PYTHONPATH=VERIF, PYTHONHASHSEED=hs)
        try:
            p = subprocess.run([sys.executable, '-W', 'ignore', '-m', 'emdverif.props.C19', str(round_seed)], capture_output=True, text=True,
                               timeout=300, env=env, cwd=VERIF)
            there = json.loads([l for l in p.stdout.splitlines() if l.startswith('DIGESTS ')][-1][8:])
        except Exception as e:
            ctx.count('interpreter_probe_failed')
            ctx.note('fresh-interpreter probe failed: %s' % str(e)[:200])
            continue
        ctx.count('fresh_interpreter_runs')
        for name in sorted(here):
            ctx.count('fresh_interpreter_comparisons')
            if json.loads(json.dumps(here[name])) != there.get(name):
                ctx.violation('differs-between-interpreters:%s' % name, '%s: the same call on the same input gives a different result in a fresh '
                              'interpreter (PYTHONHASHSEED=%s) than in this one (PYTHONHASHSEED=%s)' % (name, hs, os.environ.get('PYTHONHASHSEED')),
                              {'kind': 'interpreter', 'round_seed': round_seed})


def thread_check(ctx, table, seed):
    """Four deterministic entry points (chosen at random, each on its own input) running at the same time in four threads."""
    r = np.random.default_rng(seed)
    names = [n for n in sorted(table) if n not in ('ensemble_sift', 'complete_ensemble_sift')]
    # the same routine twice on different inputs of the same size, plus two others
    first = names[int(r.integers(len(names)))]
    chosen = [first, first] + [names[int(r.integers(len(names)))] for _ in range(2)]
    calls = []
    WRITABLE[0] = False
    for k, nm in enumerate(chosen):
        func, args, kwargs, det = table[nm](np.random.default_rng([seed, k]), shared_opts())
        calls.append((lambda f, a, kw: (lambda: f(*a, **kw)))(func, args, kwargs))
    with in_process_pools(), quiet():
        return thread_probe(ctx, '+'.join(chosen), calls, 8, {'seed': int(seed), 'entries': chosen}, interval=1e-6)


def run_shard(ctx):
    table = build_table()
    for k in range(3):
        thread_check(ctx, table, int(ctx.rng.integers(1 << 30)))
    if ctx.shard % 4 == 1:
        interpreter_probe(ctx, table, 1000 * ctx.seed + ctx.shard)
    rounds = [r for r in range(ROUNDS[ctx.tier]) if r % ctx.nshards == ctx.shard]
    for r in rounds:
        if ctx.out_of_time():
            break
        one_round(ctx, table, r)
    if ctx.shard == 0:
        ctx.sample({'entry_points': sorted(table), 'accepted_layouts': ACCEPT, 'rejected_layouts': REJECT})
    ctx.count('entry_table_size:%d' % len(table), 0)
    ctx.maxi('entry_table_size', len(table))


def finalize(agg, tier):
    c = agg['counters']
    r = []
    n = int(agg['maxima'].get('entry_table_size', 0))
    if len(agg['sets'].get('entry_points_called', ())) < n:
        r.append('only %d of %d entry points were called' % (len(agg['sets'].get('entry_points_called', ())), n))
    for k, need in [('rounds', 16), ('layout_accept_checks', 100), ('layout_reject_checks', 100), ('vector_vs_column_checks', 50),
                    ('mismatch_reject_checks', 50), ('repeat_calls', 500),
                    ('fresh_interpreter_comparisons', 200)]:
        if c.get(k, 0) < need:
            r.append('%s: %d < %d' % (k, c.get(k, 0), need))
    return r


def replay(ctx, case):
    table = build_table()
    if case['kind'] == 'threads':
        for _ in range(5):
            if not thread_check(ctx, table, case['seed']):
                break
        return
    if case['kind'] == 'interpreter':
        return interpreter_probe(ctx, table, case['round_seed'])
    if case['kind'] == 'entry':
        one_round(ctx, table, case['round_seed'], only=case['entry'])
    else:
        one_round(ctx, table, case['round_seed'])


if __name__ == '__main__':
    # fresh-interpreter side of interpreter_probe: prints the digests of one round
    from emdverif.harness import bootstrap
    bootstrap()
    print('DIGESTS ' + json.dumps(entry_digests(build_table(), int(sys.argv[1]))))
