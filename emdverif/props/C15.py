"""C15 - the cycle container keeps metrics, subsets and chains coherent.

History + executable model: every random history (<= 12 operations) is applied in lock-step to
three systems - the real Cycles container with the slice cache, the real container without it, and
a ~100-line reference container - and all observables (metric store, subset vector, chain vector,
matching cycles, tables) are compared after every step."""
import numpy as np

from .. import gens
from ..harness import digest, quiet
from .C12 import ref_partition
from .C13 import good_pred

MANIFEST = {
    'text': 'Held on every history executed: seeded histories of up to 12 container operations {compute metric (cycle / augmented mode), add metric (float / int, right and wrong length), compute timings, pick subset with 1-3 conditions over all six comparators and negative / decimal / exponent literals, compute chain timings, compute a user chain metric, matching-cycles query, table export (all / subset / conditions)} are applied in lock-step to Cycles(use_cache=True), Cycles(use_cache=False) and an executable reference container built on the wrap partition; after every step every stored metric must have one entry per cycle and equal the model, subset and chain vectors must equal the model\'s (selected cycles numbered in order, chains = maximal runs), operations the model says must fail (chain metrics before a subset) must raise, and the two real containers must agree with each other. The run is inconclusive unless every operation kind and comparator was exercised often enough. A quarter of the shards run in a session that turns Deprecation/Future/UserWarnings into errors.',
    'note': 'Trusted: numpy, pandas (tables). A selection matching no cycle has no chains: raising or returning an empty subset are both accepted provided the metric store stays coherent and the next selection is exact. Known finding K1 (augmented segment: slice cache vs label lookup use different definitions when the previous cycle is not monotone through 1.5pi / has no trough sample) is recognised by computing both definitions in the model.',
    'technique': 'history exploration with an executable reference model run in lock-step with the real container (cache on and off)',
}
LOGGER_ON_ODD_SHARDS = True
BUDGET_S = {'quick': 70, 'thorough': 420}
NCASES = {'quick': 4000, 'thorough': 40000}
RULE = ('seeded random histories (length 3..12) over the operation alphabet, on containers built from synthetic phases '
        '(>= 1 wrap; clean, noisy, reversing); thresholds of conditions are drawn from the metric\'s actual values; '
        'non-trivial = the history contains a subset selection with at least one selected cycle; distinct by sha1 of '
        '(phase, history)')
ASSUMPTIONS = ['condition strings contain no whitespace (the documented examples have none)']

OPS = {'>': np.greater, '>=': np.greater_equal, '<': np.less, '<=': np.less_equal, '==': np.equal, '!=': np.not_equal}
FUNCS = {'max': np.max, 'mean': np.mean, 'sum': np.sum, 'len': len, 'first': lambda v: v[0], 'last': lambda v: v[-1],
         'builtin_max': max, 'builtin_min': min}      # (Python's own max / min: they differ from numpy's on NaN)
TIMING = ('chain_start', 'chain_end', 'chain_len_samples', 'chain_len_cycles', 'chain_position')


class RefCycles:
    """Reference container: plain dictionaries over the wrap partition."""

    def __init__(self, phase, phase_step=1.5 * np.pi):
        self.phase = phase
        self.lab, self.segs = ref_partition(phase, phase_step)
        self.K = len(self.segs)
        self.metrics = {'is_good': np.array([int(good_pred(phase[s:e], np.pi / 12)) for s, e in self.segs])}
        self.sel = None       # boolean per cycle once a subset was picked
        self.empty = False    # last selection matched nothing

    # --- augmented segment, both definitions
    def aug_cache(self, k):
        s, e = self.segs[k]
        before = self.phase[:s][::-1]
        idx = np.where(before < 1.5 * np.pi)[0]
        if len(idx) == 0:
            return None
        return np.arange(s - idx[0], e)

    def aug_lookup(self, k):
        if k == 0:
            return None  # (no previous cycle: the partition labels every sample)
        ps, pe = self.segs[k - 1]
        idx = np.where(self.phase[ps:pe] > 1.5 * np.pi)[0]
        if len(idx) == 0:
            return None
        return np.arange(ps + idx[0], self.segs[k][1])

    def cycle_metric(self, vals, func, mode, which):
        out = np.full(self.K, np.nan)
        for k, (s, e) in enumerate(self.segs):
            if mode == 'cycle':
                out[k] = func(vals[s:e])
            else:
                inds = self.aug_cache(k) if which == 'cache' else self.aug_lookup(k)
                out[k] = np.nan if inds is None else func(vals[inds])
        return out

    def aug_defs_differ(self):
        d = []
        for k in range(self.K):
            a, b = self.aug_cache(k), self.aug_lookup(k)
            d.append((a is None) != (b is None) or (a is not None and not np.array_equal(a, b)))
        return np.array(d)

    def matching(self, conds):
        m = np.ones(self.K, dtype=bool)
        for name, op, lit in conds:
            m &= OPS[op](self.metrics[name], float(lit))   # KeyError if the metric does not exist (see run_history)
        return m

    def pick(self, conds):
        m = self.matching(conds)
        self.sel = m
        self.empty = not m.any()
        if self.empty:
            return
        self.metrics['chain_ind'] = self.chain_of_cycle()

    def runs(self):
        runs = []
        for c in range(self.K):
            if self.sel[c]:
                if c > 0 and self.sel[c - 1]:
                    runs[-1].append(c)
                else:
                    runs.append([c])
        return runs

    def subset_vect(self):
        sv = np.full(self.K, -1, dtype=int)
        sv[self.sel] = np.arange(int(self.sel.sum()))
        return sv

    def chain_vect(self):
        return np.array([ci for ci, r in enumerate(self.runs()) for _ in r], dtype=int)

    def chain_of_cycle(self):
        out = np.full(self.K, -1, dtype=int)
        for ci, r in enumerate(self.runs()):
            out[r] = ci
        return out

    def chain_timings(self):
        out = {k: np.full(self.K, -1, dtype=int) for k in TIMING}
        for r in self.runs():
            s, e = self.segs[r[0]][0], self.segs[r[-1]][1]
            for pos, c in enumerate(r):
                out['chain_start'][c] = s
                out['chain_end'][c] = e - 1
                out['chain_len_samples'][c] = e - s
                out['chain_len_cycles'][c] = len(r)
                out['chain_position'][c] = pos
        self.metrics.update(out)

    def timings(self):
        self.metrics['start_sample'] = np.array([s for s, e in self.segs])
        self.metrics['stop_sample'] = np.array([e - 1 for s, e in self.segs])
        self.metrics['duration'] = np.array([e - s for s, e in self.segs])


def vals_of(op):
    """The value trace of a compute op: a fresh copy, as a masked array when the op marks rejected samples."""
    v = np.array(op['vals'], dtype=float, copy=True)
    if op.get('masked'):
        m = np.zeros(len(v), dtype=bool)
        m[list(op['masked'])] = True
        return np.ma.MaskedArray(v, mask=m)
    return v


def cond_str(c):
    return '%s%s%s' % c


def literal(rng, v):
    """A literal that parses to exactly float(v), in one of several notations."""
    v = float(v)
    if v == int(v) and abs(v) < 1e6 and rng.random() < .4:
        return str(int(v))
    forms = [repr(v), '%.17e' % v, ('%.17e' % v).replace('e', 'E'), ('%.17e' % v).replace('e', 'E')]     # (float() reads e and E alike)
    if v == int(v) and 10 <= abs(v) < 1e9:
        s = str(int(v))
        forms += [s[:-1] + '_' + s[-1], s[:-1] + '_' + s[-1]]                 # digit grouping, as float('1_000') accepts
    if round(v, 1) == v:
        forms += ['%.1f' % v, '%.1e' % v, ('%.2e' % v).replace('e', 'E')]
    return forms[int(rng.integers(len(forms)))]


def gen_history(rng, ref):
    """List of op dicts; conditions are built from the model's current metrics as the history is generated."""
    K, n = ref.K, len(ref.phase)
    names = ['is_good']
    h = []
    counter = [0]
    in_use = set()
    chain_names_ready = [False]
    past_conds = []

    def fresh(prefix):
        counter[0] += 1
        if rng.random() < .05 and len(names) > 1:
            # a name that is a proper prefix of a name stored earlier ('dur' after 'duration', 'm1' after 'm12', ...)
            longer = gens.pick(rng, [n for n in names if len(n) > 2] or names)
            cand = longer[:int(rng.integers(1, len(longer)))]
            if cand not in names and cand not in in_use and cand[0].isalpha() and not any(ch in cand for ch in '=<>!'):
                return cand
        if rng.random() < .06:
            # the metric store is open: a user metric may be stored under the name of a timing metric
            cand = [n for n in ('duration', 'start_sample', 'stop_sample') if n not in in_use]
            if cand:
                return gens.pick(rng, cand)
        if len(names) > 1 and rng.random() < .1:
            # (never a metric that the active selection's conditions refer to: the library re-evaluates
            #  stored conditions for subset tables, and which of the two readings is meant is not the property's business)
            cand = [n for n in names if n[0] in 'ma' and n not in in_use]
            if cand:
                return gens.pick(rng, cand)   # deliberately overwrite an existing user metric
        return '%s%d' % (prefix, counter[0])
    L = int(rng.integers(3, 13))
    have_subset = False
    # a tenth of the histories follow a template: select, compute chain metrics, query a condition on a chain metric,
    # select something else, recompute, and ask the very same question again
    template = None
    if rng.random() < .1 and K >= 3:
        q = (gens.pick(rng, ['chain_position', 'chain_len_cycles', 'chain_ind']), gens.pick(rng, ['==', '!=', '>=', '<']),
             literal(rng, float(gens.pick(rng, [0, 0, 1, 2]))))
        template = ['pick1', 'chain_timings', ('query', q), 'pick2', 'chain_timings', ('query', q)]
        L = len(template)
    shadow = {'is_good': ref.metrics['is_good'].astype(float)}
    for _step in range(L):
        r = rng.random()
        if template is not None:
            t = template[_step]
            if t == 'chain_timings':
                h.append({'op': 'chain_timings'})
                chain_names_ready[0] = True
                continue
            if isinstance(t, tuple):
                h.append({'op': gens.pick(rng, ['match', 'table_conditions']), 'conds': [t[1]]})
                continue
            # two different non-empty selections on the cycle quality / position in the recording
            dur = np.array([e - s0 for s0, e in ref.segs], dtype=float)
            if 'duration' not in names:
                h.append({'op': 'timings'})
                shadow['duration'] = dur
                shadow['start_sample'] = np.array([s0 for s0, e in ref.segs], dtype=float)
                shadow['stop_sample'] = np.array([e - 1 for s0, e in ref.segs], dtype=float)
                names.extend(['start_sample', 'stop_sample', 'duration'])
            thr = float(np.sort(shadow['start_sample'])[K // 2]) + float(gens.pick(rng, [0, 0, .5, -.5, .25]))     # (a fractional threshold on an integer-valued metric)
            cond = ('start_sample', '<' if t == 'pick1' else '>=', literal(rng, thr)) if rng.random() < .5 else \
                   ('duration', '>=' if t == 'pick1' else '<=', literal(rng, float(np.median(dur))))
            h.append({'op': 'pick', 'conds': [cond]})
            have_subset = True
            in_use.clear()
            in_use.add(cond[0])
            continue
        if r < .22:
            name = fresh('m')
            fn = gens.pick(rng, sorted(FUNCS))
            vals = np.round(rng.standard_normal(n), 1) if rng.random() < .5 else rng.standard_normal(n)
            if rng.random() < .15:
                vals[rng.integers(0, n, int(rng.integers(1, 4)))] = np.nan       # samples that could not be measured
            mode = 'augmented' if rng.random() < .25 else 'cycle'
            h.append({'op': 'compute', 'name': name, 'func': fn, 'vals': vals, 'mode': mode})
            if mode == 'cycle' and fn in ('max', 'mean', 'sum') and not np.isnan(vals).any() and rng.random() < .3:
                # a value trace with rejected samples: a numpy masked array (isolated masked samples; cycles have >= 6 samples)
                long_cycles = [(s0, e) for s0, e in ref.segs if e - s0 >= 4]
                h[-1]['masked'] = sorted(set(int(rng.integers(s0 + 1, e - 1)) for s0, e in [long_cycles[int(j)] for j in rng.integers(0, len(long_cycles), int(rng.integers(1, 6)))])) if long_cycles else []      # at most one rejected sample per cycle
            if mode == 'cycle':
                shadow[name] = ref.cycle_metric(vals_of(h[-1]), FUNCS[fn], 'cycle', None)
                if name not in names:
                    names.append(name)
            elif name in names:
                names.remove(name)   # now an augmented metric: not used in conditions
        elif r < .36:
            name = fresh('a')
            wrong = rng.random() < .15
            vals = np.round(rng.standard_normal(K + (int(rng.integers(1, 3)) if wrong else 0)), 1)
            asint = (not wrong) and rng.random() < .3
            if (not wrong) and (not asint) and rng.random() < .35 and K > 1:
                # near-duplicates: values that differ from another entry by far less than any sensible tolerance but are
                # not equal to it ('==' and '!=' must still tell them apart), at small and at large magnitudes
                if rng.random() < .4:
                    vals = vals + float(gens.pick(rng, [3.6e6, 1e5]))
                for _q in range(int(rng.integers(1, 4))):
                    i, j = int(rng.integers(K)), int(rng.integers(K))
                    if i != j:
                        vals[i] = vals[j] + float(gens.pick(rng, [1e-9, -1e-9, 1e-7, 1e-12])) * max(abs(vals[j]), 1.0)
            if (not wrong) and (not asint) and rng.random() < .3 and K > 1:
                vals[int(rng.integers(K))] = np.nan          # a per-cycle value the user could not compute
            if asint:
                vals = np.round(vals * 3)
                if rng.random() < .5 and K > 1:
                    vals[int(rng.integers(K))] = np.nan
            h.append({'op': 'add', 'name': name, 'vals': vals, 'dtype': 'int' if asint else None, 'wrong_length': bool(wrong)})
            if not wrong:
                v2 = vals.copy()
                if asint:
                    v2[np.isnan(v2)] = -1
                shadow[name] = v2
                if name not in names:
                    names.append(name)
        elif r < .40 and len(names) > 1:
            src = gens.pick(rng, [n for n in names if n != 'is_good'] or names)
            name = 'x%d' % (len(h) + 1)
            h.append({'op': 'add_alias', 'name': name, 'source': src})
            v2 = np.array(shadow[src], dtype=float)
            v2[np.isnan(v2)] = -1
            shadow[name] = np.trunc(v2)
            names.append(name)
        elif r < .46 and (in_use & {'start_sample', 'stop_sample', 'duration'}):
            h.append({'op': 'table_all'})    # recomputing the timings would overwrite a metric the active selection refers to
        elif r < .46:
            h.append({'op': 'timings'})
            for k, v in (('start_sample', [s for s, e in ref.segs]), ('stop_sample', [e - 1 for s, e in ref.segs]), ('duration', [e - s for s, e in ref.segs])):
                shadow[k] = np.array(v, dtype=float)
                if k not in names:
                    names.append(k)
        elif r < .72:
            conds = []
            for _c in range(int(rng.integers(1, 4))):
                usable = [c for c in past_conds if c[0] in names or (chain_names_ready[0] and (c[0] in TIMING or c[0] == 'chain_ind'))]
                if usable and rng.random() < .25:
                    conds.append(gens.pick(rng, usable))    # the very same condition string again, later in the history
                    continue
                if chain_names_ready[0] and rng.random() < .3:
                    # conditions on chain metrics (small integers; -1 for unselected cycles)
                    cname = gens.pick(rng, ['chain_position', 'chain_len_cycles', 'chain_ind'])
                    conds.append((cname, gens.pick(rng, sorted(OPS)), literal(rng, float(gens.pick(rng, [-1, 0, 0, 1, 2])))))
                    continue
                name = gens.pick(rng, names)
                op = gens.pick(rng, sorted(OPS))
                col = shadow[name]
                fin = col[np.isfinite(col)]
                if rng.random() < .06 or len(fin) == 0:
                    thr = 1e6 if op in ('>', '>=', '==') else -1e6   # deliberately (almost surely) empty
                else:
                    thr = float(fin[int(rng.integers(len(fin)))])
                conds.append((name, op, literal(rng, thr)))
            kind = gens.pick(rng, ['pick', 'pick', 'match', 'table_conditions'])
            if kind == 'pick' and any(c[0] in TIMING or c[0] == 'chain_ind' for c in conds):
                # a selection defined through the chain metrics of the previous selection would overwrite the very metrics
                # its own stored conditions refer to (same ambiguity as overwriting a metric in use): query only
                kind = gens.pick(rng, ['match', 'table_conditions'])
            h.append({'op': kind, 'conds': conds})
            past_conds.extend(c for c in conds if c not in past_conds)
            have_subset = have_subset or kind == 'pick'
            if kind == 'pick':
                in_use.clear()
                in_use.update(c[0] for c in conds)
        elif r < .80:
            h.append({'op': 'chain_timings'})
            if have_subset:
                chain_names_ready[0] = True
        elif r < .86:
            h.append({'op': 'chain_metric', 'name': 'c%d' % (len(h) + 1), 'func': gens.pick(rng, ['max', 'mean', 'sum', 'len', 'first', 'last']),
                      'vals': np.round(rng.standard_normal(n), 1), 'dtype': 'int' if rng.random() < .3 else None})
        else:
            h.append({'op': gens.pick(rng, ['table_all', 'table_subset'])})
    return h


def snapshot(cy):
    m = {k: np.array(v, copy=True) for k, v in cy.metrics.items()}
    sv = None if cy.subset_vect is None else np.array(cy.subset_vect).reshape(-1)
    cv = None if cy.chain_vect is None else np.array(cy.chain_vect).reshape(-1)
    return m, sv, cv


def same_vals(a, b, tol=1e-12):
    a = np.asarray(a, dtype=float).reshape(-1)
    b = np.asarray(b, dtype=float).reshape(-1)
    if a.shape != b.shape:
        return False
    na, nb = np.isnan(a), np.isnan(b)
    if not np.array_equal(na, nb):
        return False
    return bool(np.allclose(a[~na], b[~nb], rtol=tol, atol=tol))


def run_history(ctx, phase, hist, case):
    from emd import cycles as C
    step = float(case.get('phase_step', 1.5 * np.pi))
    ref = RefCycles(phase, step)
    K = ref.K
    with quiet():
        if 'phase_step' in case:
            # the containers' own constructor option (the jump that starts a new cycle): cache on and off must agree for every value
            real = {'cache': C.Cycles(phase.copy(), phase_step=step, use_cache=True), 'nocache': C.Cycles(phase.copy(), phase_step=step, use_cache=False)}
            ctx.count('containers_with_phase_step:%.2fpi' % (step / np.pi))
        else:
            real = {'cache': C.Cycles(phase.copy(), use_cache=True), 'nocache': C.Cycles(phase.copy(), use_cache=False)}
    V = ctx.violation
    for which, cy in real.items():
        if cy.ncycles != K or not np.array_equal(np.asarray(cy.cycle_vect).reshape(-1), ref.lab):
            V('container-partition', 'container (%s) found %d cycles, the wrap partition has %d' % (which, cy.ncycles, K), case)
            return False
    aug_metrics = {}   # name -> vals/func for augmented metrics (two definitions)
    chain_user = set()  # user chain metrics requested while the selection was empty (may or may not exist)
    picked = False
    for step, op in enumerate(hist):
        kind = op['op']
        ctx.count('op:' + kind)
        expect = 'ok'
        # ---- model transition
        if kind == 'compute':
            if op['mode'] == 'cycle':
                ref.metrics[op['name']] = ref.cycle_metric(vals_of(op), FUNCS[op['func']], 'cycle', None)
                if op.get('masked'):
                    ctx.count('metrics_of_masked_value_traces')
                aug_metrics.pop(op['name'], None)
            else:
                aug_metrics[op['name']] = op
                ref.metrics.pop(op['name'], None)
                ctx.count('augmented_metrics')
        elif kind == 'add':
            if not op['wrong_length']:
                v = op['vals'].copy()
                if op['dtype'] == 'int':
                    v[np.isnan(v)] = -1
                    v = v.astype(int)
                ref.metrics[op['name']] = v
                aug_metrics.pop(op['name'], None)
            else:
                expect = 'ok-or-raise'
        elif kind == 'timings':
            ref.timings()
            for nme in ('start_sample', 'stop_sample', 'duration'):
                aug_metrics.pop(nme, None)
        elif kind == 'add_alias':
            # an integer-coded copy of a metric that is already stored, made from the stored array object itself
            if op['source'] in ref.metrics:
                v = np.array(ref.metrics[op['source']], dtype=float)
                v[np.isnan(v)] = -1
                ref.metrics[op['name']] = v.astype(int)
                ctx.count('alias_adds')
            else:
                expect = 'raise'
        elif kind in ('pick', 'match', 'table_conditions') and any(c[0] not in ref.metrics and c[0] not in aug_metrics for c in op['conds']):
            expect = 'raise'      # a condition names a metric that was never computed (KeyError in any implementation)
            ctx.count('conditions_on_missing_metric')
        elif kind == 'pick':
            ref.pick(op['conds'])
            picked = True
            if ref.empty:
                expect = 'ok-or-raise'
                ctx.count('empty_selections')
            else:
                ctx.count('nonempty_selections')
                for c in op['conds']:
                    ctx.count('comparator:' + c[1])
                if len(ref.runs()) >= 2:
                    ctx.count('selections_with_2+_chains')
        elif kind == 'chain_timings':
            if not picked:
                expect = 'raise'
            elif ref.empty:
                expect = 'ok-or-raise'
            else:
                ref.chain_timings()
        elif kind == 'chain_metric':
            if not picked:
                expect = 'raise'
            elif ref.empty:
                expect = 'ok-or-raise'
                chain_user.add(op['name'])
            else:
                out = np.full(K, np.nan)
                for r_ in ref.runs():
                    s0, e0 = ref.segs[r_[0]][0], ref.segs[r_[-1]][1]
                    out[r_] = FUNCS[op['func']](op['vals'][s0:e0])
                if op['dtype'] == 'int':
                    out[np.isnan(out)] = -1
                    out = out.astype(int)
                ref.metrics[op['name']] = out
                ctx.count('user_chain_metrics')
        # ---- real transitions
        results = {}
        for which, cy in real.items():
            try:
                with quiet():
                    if kind == 'compute':
                        cy.compute_cycle_metric(op['name'], vals_of(op), FUNCS[op['func']], mode=op['mode'])
                        out = None
                    elif kind == 'add':
                        out = cy.add_cycle_metric(op['name'], op['vals'].copy(), dtype=(int if op['dtype'] == 'int' else None))
                    elif kind == 'timings':
                        out = cy.compute_cycle_timings()
                    elif kind == 'add_alias':
                        out = cy.add_cycle_metric(op['name'], cy.metrics[op['source']], dtype=int)
                    elif kind == 'pick':
                        out = cy.pick_cycle_subset([cond_str(c) for c in op['conds']])
                    elif kind == 'chain_timings':
                        out = cy.compute_chain_timings()
                    elif kind == 'chain_metric':
                        out = cy.compute_chain_metric(op['name'], op['vals'].copy(), FUNCS[op['func']], dtype=(int if op['dtype'] == 'int' else None))
                    elif kind == 'match':
                        conds = [cond_str(c) for c in op['conds']]
                        out = np.asarray(cy.get_matching_cycles(conds if len(conds) > 1 or step % 2 else conds[0])).astype(bool)
                    elif kind == 'table_all':
                        out = cy.get_metric_dataframe()
                    elif kind == 'table_subset':
                        out = cy.get_metric_dataframe(subset=True) if picked else cy.get_metric_dataframe()
                    elif kind == 'table_conditions':
                        out = cy.get_metric_dataframe(conditions=[cond_str(c) for c in op['conds']])
                results[which] = ('ok', out)
            except Exception as e:
                results[which] = ('raise', e)
        statuses = set(r[0] for r in results.values())
        where = 'step %d (%s)' % (step, kind if 'conds' not in op else kind + ' ' + ','.join(cond_str(c) for c in op['conds']))
        if len(statuses) > 1:
            V('cache-divergence:raise', '%s: one container raised (%s) and the other did not' % (where, [repr(r[1])[:60] for r in results.values() if r[0] == 'raise']), case)
            return False
        st = statuses.pop()
        if expect == 'ok' and st == 'raise':
            e = results['cache'][1]
            V('op-raised:%s:%s' % (kind, type(e).__name__), '%s raised %s: %s' % (where, type(e).__name__, str(e)[:100]), case)
            return False
        if expect == 'raise' and st == 'ok':
            V('no-error:%s' % kind, '%s succeeded although no subset had been picked (documented ValueError)' % where, case)
            return False
        if expect == 'raise':
            ctx.count('expected_raises_observed')
        # ---- observables of query operations
        if st == 'ok' and kind == 'match':
            if any(c[0] in TIMING or c[0] == 'chain_ind' for c in op['conds']):
                ctx.count('conditions_on_chain_metrics')
            want = ref.matching(op['conds'])
            for which, (_, out) in results.items():
                if not np.array_equal(out.reshape(-1), want):
                    V('matching:' + '+'.join(sorted(set(c[1] for c in op['conds']))), '%s [%s]: get_matching_cycles = %s, conditions mean %s'
                      % (where, which, out.astype(int).tolist()[:16], want.astype(int).tolist()[:16]), case)
                    return False
            for which, cy in real.items():
                # the per-condition form: column k is condition k on its own, in the order given
                sep = np.asarray(cy.get_matching_cycles([cond_str(c) for c in op['conds']], ret_separate=True)).astype(bool)
                wantsep = np.stack([ref.matching([c]) for c in op['conds']], axis=1)
                if sep.shape != wantsep.shape or not np.array_equal(sep, wantsep):
                    V('matching:ret_separate', '%s [%s]: get_matching_cycles(..., ret_separate=True) has shape %s; column k must be condition k '
                      'alone in the order given (expected shape %s)' % (where, which, sep.shape, wantsep.shape), case)
                    return False
            for c in op['conds']:
                ctx.count('comparator:' + c[1])
            ctx.count('matching_queries_ok')
        if st == 'ok' and kind.startswith('table'):
            if kind == 'table_conditions':
                rows = ref.matching(op['conds'])
            elif kind == 'table_subset' and picked:
                rows = ref.sel
            else:
                rows = np.ones(K, dtype=bool)
            for which, (_, df) in results.items():
                names = [k for k in ref.metrics if k in real[which].metrics]
                ok = len(df) == int(rows.sum()) and all(n in df.columns for n in names)
                if ok:
                    for nme in names:
                        if not same_vals(df[nme].values, np.asarray(ref.metrics[nme])[rows]):
                            ok = False
                            break
                if not ok:
                    V('table:' + kind, '%s [%s]: exported table has %d rows / columns %s, expected %d rows with the stored metrics of the '
                      'selected cycles' % (where, which, len(df), list(df.columns)[:6], int(rows.sum())), case)
                    return False
            ctx.count('tables_ok')
        # ---- state observables after every step
        snaps = {w: snapshot(cy) for w, cy in real.items()}
        for which, (m, sv, cv) in snaps.items():
            for name, vals in m.items():
                if len(vals) != K:
                    V('metric-length', '%s [%s]: stored metric %r has %d entries for %d cycles' % (where, which, name, len(vals), K), case)
                    return False
            skip = set()
            if ref.empty:
                skip = set(TIMING) | {'chain_ind'}
            for name, want in ref.metrics.items():
                if name in skip:
                    continue
                if name not in m:
                    V('metric-missing:' + (name if name in TIMING or name in ('chain_ind', 'start_sample', 'stop_sample', 'duration') else 'user'),
                      '%s [%s]: metric %r is missing from the store' % (where, which, name), case)
                    return False
                if not same_vals(m[name], want):
                    bad = np.where(~np.isclose(np.asarray(m[name], float), np.asarray(want, float), equal_nan=True))[0]
                    cls = name if name in TIMING or name in ('chain_ind', 'start_sample', 'stop_sample', 'duration', 'is_good') else 'user-metric'
                    V('metric-value:' + cls, '%s [%s]: metric %r = %s, model says %s (first differing cycle %s)'
                      % (where, which, name, np.asarray(m[name]).tolist()[:10], np.asarray(want).tolist()[:10], bad[:1].tolist()), case)
                    return False
            extra = set(m) - set(ref.metrics) - set(aug_metrics) - (skip if ref.empty else set()) - chain_user
            if extra:
                V('metric-unexpected', '%s [%s]: unexpected metrics %s in the store' % (where, which, sorted(extra)), case)
                return False
            if picked and not ref.empty:
                if sv is None or not np.array_equal(sv, ref.subset_vect()):
                    V('subset-vector', '%s [%s]: subset vector %s, conditions select %s' % (where, which, None if sv is None else sv.tolist()[:16], ref.subset_vect().tolist()[:16]), case)
                    return False
                if cv is None or not np.array_equal(cv, ref.chain_vect()):
                    V('chain-vector', '%s [%s]: chain vector %s, maximal runs give %s' % (where, which, None if cv is None else cv.tolist()[:16], ref.chain_vect().tolist()[:16]), case)
                    return False
            elif not picked and (sv is not None or cv is not None):
                V('subset-before-pick', '%s [%s]: subset/chain vectors exist before any selection' % (where, which), case)
                return False
        # augmented metrics: each container against its own definition; cache vs no-cache where the definitions coincide
        differ = ref.aug_defs_differ() if aug_metrics else None
        for name, aop in aug_metrics.items():
            got = {}
            for which, (m, _, _) in snaps.items():
                if name not in m:
                    V('metric-missing:augmented', '%s [%s]: augmented metric %r missing' % (where, which, name), case)
                    return False
                got[which] = np.asarray(m[name], dtype=float)
                want = ref.cycle_metric(aop['vals'], FUNCS[aop['func']], 'augmented', 'cache' if which == 'cache' else 'lookup')
                if not same_vals(got[which], want):
                    bad = np.where(~np.isclose(got[which], want, equal_nan=True))[0]
                    key = 'augmented-metric:%s' % which
                    if which == 'nocache' and bad.tolist() == [0]:
                        key = 'augmented-metric:nocache:first-cycle'
                    V(key, '%s [%s]: augmented metric %r differs from the function over the augmented samples at cycles %s (got %s, want %s)'
                      % (where, which, name, bad[:4].tolist(), got[which][bad[:3]].tolist(), want[bad[:3]].tolist()), case)
                    return False
            neq = ~np.isclose(got['cache'], got['nocache'], equal_nan=True)
            if np.any(neq & ~differ):
                V('cache-divergence:augmented', '%s: augmented metric %r differs between cache on and off at cycles %s although both segment '
                  'definitions select the same samples there' % (where, name, np.where(neq & ~differ)[0][:4].tolist()), case)
                return False
            if np.any(neq & differ):
                V('aug-segment-definition', '%s: augmented metric %r differs between cache on and off at cycle %d where the slice-cache '
                  'segment (contiguous run >= 1.5pi left of the cycle) and the label-lookup segment (from the first sample > 1.5pi of the '
                  'previous cycle) select different samples' % (where, name, int(np.where(neq & differ)[0][0])), case)
                # known finding: keep checking the rest of the history
            else:
                ctx.count('augmented_metrics_identical_cache_on_off')
        # plain metrics: cache on/off identical
        for name in snaps['cache'][0]:
            if name in aug_metrics:
                continue
            if name not in snaps['nocache'][0] or not same_vals(snaps['cache'][0][name], snaps['nocache'][0][name]):
                V('cache-divergence:metric', '%s: metric %r differs between cache on and off' % (where, name), case)
                return False
        ctx.count('steps_checked')
    return True


def check_case(ctx, case):
    phase, hist = case['phase'], case['history']
    ref = RefCycles(phase, float(case.get('phase_step', 1.5 * np.pi)))
    sel = any(h['op'] == 'pick' for h in hist)
    ctx.case(digest(phase, repr([(h['op'], h.get('conds'), h.get('name')) for h in hist])), sel)
    ok = run_history(ctx, phase, hist, case)
    if ok:
        ctx.count('histories_ok')


def gen_case(rng):
    while True:
        r = rng.random()
        phase = gens.synthetic_phase(rng, noise=(0.0 if r < .5 else float(rng.uniform(0, .25))), reversals=bool(r > .75))
        if rng.random() < .2:
            # "arbitrary phases": samples next to a wrap that leave [0, 2pi] by a little (filter ringing, interpolation, added noise)
            phase = np.array(phase, dtype=float)
            w = np.where(np.abs(np.diff(phase)) > np.pi)[0]
            for i in w[rng.random(len(w)) < .5]:
                # first sample of the next cycle slightly below 0 (a maximum above 2pi would make the library re-wrap the whole
                # series first - documented, and not what is modelled here)
                phase[i + 1] = -float(rng.uniform(1e-3, .2))
        step = float(gens.pick(rng, [1.5 * np.pi, 1.5 * np.pi, np.pi, 1.9 * np.pi]))
        ref = RefCycles(phase, step)
        if ref.K >= 1:
            break
    return {'kind': 'history', 'phase': phase, 'history': gen_history(rng, ref), 'phase_step': step}


def run_shard(ctx):
    rng = ctx.rng
    n = NCASES[ctx.tier] // ctx.nshards
    for i in range(n):
        if ctx.out_of_time():
            break
        case = gen_case(rng)
        try:
            check_case(ctx, case)
        except Exception as e:
            import traceback
            ctx.note('harness exception: ' + traceback.format_exc()[-400:])
            ctx.violation('harness-error:%s' % type(e).__name__, 'driver failed: %s' % str(e)[:200], case)
        if i < 2:
            ctx.sample({'n': len(case['phase']), 'history': [{k: (v if not isinstance(v, np.ndarray) else '<%d values>' % len(v)) for k, v in h.items()} for h in case['history']]})


def finalize(agg, tier):
    c = agg['counters']
    r = []
    for k in ['compute', 'add', 'add_alias', 'timings', 'pick', 'chain_timings', 'chain_metric', 'match', 'table_all', 'table_subset', 'table_conditions']:
        if c.get('op:' + k, 0) < 100:
            r.append('operation %s executed %d times (need >= 100)' % (k, c.get('op:' + k, 0)))
    for k in OPS:
        if c.get('comparator:' + k, 0) < 50:
            r.append('comparator %s used %d times (need >= 50)' % (k, c.get('comparator:' + k, 0)))
    for k, need in [('selections_with_2+_chains', 30), ('expected_raises_observed', 10), ('augmented_metrics', 30), ('histories_ok', 100)]:
        if c.get(k, 0) < need:
            r.append('%s: %d < %d' % (k, c.get(k, 0), need))
    return r


def replay(ctx, case):
    for h in case['history']:
        if 'conds' in h:
            h['conds'] = [tuple(c) for c in h['conds']]
    check_case(ctx, case)
