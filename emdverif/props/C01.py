"""C01 - classic sift is a complete additive decomposition of its input.

Oracle (invariant at a hook on the real sift): for sift(x) with no cap and no energy threshold,
unless the last column's absolute sum is under sift_thresh, columns sum to x within rounding and
the last column has < 2 strict interior maxima or < 2 strict interior minima.
An in-process probe classifies the exit path of every single-IMF extraction (A/B/C) so that the
evidence shows the workload reached the input-dependent paths the unit test never sees."""
import contextlib

import numpy as np

from .. import gens
from ..harness import watchdog, WatchdogTimeout, MonitorAbort, digest
from ..monitors import SiftProbe, FastClock, thread_probe
from ..refmodels import count_extrema

MANIFEST = {
    'text': 'Held on every sift executed: the real emd.sift.sift is run on thousands of seeded signals (7 families, lengths 3-300) x stop rule x step x interpolation x pad width with a post-condition monitor (columns sum to the input within 64*eps*(k+1)*scale; last column non-oscillatory) and a probe that classifies the exit path of every inner extraction; a feedback corpus enriches the rare path where extrema vanish mid-extraction, and the run is inconclusive unless that path was seen often enough. Sampling, not proof. Schedules: the same deterministic calls made from 4-5 threads of one interpreter at once (thread switch every 1-10 microseconds) must reproduce the results obtained alone. Returned decompositions are held untouched and re-read after later calls. A quarter of the shards run in a session that turns Deprecation/Future/UserWarnings into errors.',
    'note': 'Trusted: numpy/scipy, the harness extrema counter. sift_thresh default; PCHIP cases capped at 150 samples for cost.',
    'technique': 'runtime post-condition monitor on the real sift + exit-path probe, seeded workload with feedback corpus',
}
LOGGER_ON_ODD_SHARDS = 'quarter'   # (sifting logs heavily: a quarter of the shards run with the logger set up)
SESSION_NOISE = True      # every shard starts after unrelated session activity (harness.session_noise)
BUDGET_S = {'quick': 60, 'thorough': 420}
NCASES = {'quick': 3600, 'thorough': 48000}
RULE = ('seeded random (family x length x stop rule x step x interpolation x pad width), plus a feedback corpus of '
        'perturbed neighbours of every input whose sift contained an extraction in which extrema vanished after '
        '>=1 mean removal (path B); a case is non-trivial if the sift returned >= 2 components; distinct by sha1 of '
        '(signal bytes, options)')
ASSUMPTIONS = ['sift_thresh is left at its default 1e-8; runs whose last component is below it are counted as cut short, not judged']

SIFT_THRESH = 1e-8
EPS = np.finfo(float).eps


def gen_case(rng):
    kind = gens.pick(rng, gens.FAMILIES)
    eo = gens.env_opts(rng)
    if rng.random() < .35:
        n = int(rng.integers(3, 15))
    else:
        n = int(gens.pick(rng, [16, 40, 100, 100, 300, 300, 2500]))
    if eo['interp_method'] != 'splrep':
        n = min(n, 150)
    x = gens.signal(rng, kind, n)
    if rng.random() < .1 and np.ptp(x) > 0:
        # an oscillation riding on a large constant offset (almost flat in relative terms, oscillatory all the same)
        x = x + float(gens.pick(rng, [-1, 1])) * float(10 ** rng.uniform(2, 6.5)) * np.abs(x).max()
    io = gens.imf_opts(rng)
    if io['stop_method'] != 'fixed' and rng.random() < .25:
        io['max_iters'] = int(gens.pick(rng, [10, 30, 100]))     # a tight iteration budget: the call either raises or is complete
    elif io['stop_method'] == 'fixed' and rng.random() < .1:
        io['max_iters'] = int(gens.pick(rng, [50, 200]))         # heavy over-sifting: many components on short records
    xo = gens.ext_opts(rng)
    xp, _, tag = gens.present(rng, x, dtypes=('int', 'float32', 'float16'), p_plain=.8)
    if tag in gens.VIEWS:
        xp = np.asarray(x)
    c = {'kind': 'sift', 'family': kind, 'x': xp, 'imf_opts': io, 'envelope_opts': eo, 'extrema_opts': xo, 'presentation': tag}
    if rng.random() < .15:
        c['clock_step'] = float(gens.pick(rng, [60., 1200., 1e5]))     # fault injection: the clocks of `time` run fast during the call
    return c


def long_swell(rng):
    """A very long, very smooth record (two to four cycles of a swell plus drift, 70 000 - 140 000 samples) cut so that a crest or a
    trough falls exactly on, or next to, a multiple of 2**16 samples."""
    n = int(rng.integers(70000, 140000))
    t = np.arange(n + 80000)
    # (mostly barely more than two cycles: the record then has exactly two crests or two troughs, the minimum for an envelope)
    P = n / float(rng.uniform(2.05, 2.5) if rng.random() < .75 else rng.uniform(2.5, 4.2))
    full = np.sin(2 * np.pi * t / P + float(rng.uniform(0, 6))) * (1 + .2 * np.sin(2 * np.pi * t / (3.1 * P))) + float(rng.uniform(-.5, .5)) * t / n
    y = full if rng.random() < .5 else -full
    target = 65536 * (1 if n < 131072 + 10 or rng.random() < .5 else 2) + int(gens.pick(rng, [-1, 0, 0]))
    m = [i for i in np.nonzero((y[1:-1] > y[:-2]) & (y[1:-1] > y[2:]))[0] + 1 if i >= target and i - target + n <= len(y)]
    if not m:
        return full[:n], None
    s = m[0] - target
    return full[s:s + n], target


def neighbours(rng, case, k=4):
    out = []
    for _ in range(k):
        c = dict(case)
        x = np.asarray(case['x'], dtype=float).copy()
        c.pop('presentation', None)
        r = rng.random()
        if r < .5:
            x = x + rng.standard_normal(len(x)) * np.abs(x).max() * float(gens.pick(rng, [1e-3, 1e-2, .1]))
        elif r < .7:
            c['imf_opts'] = gens.imf_opts(rng)
        elif r < .85:
            c['envelope_opts'] = gens.env_opts(rng)
            if c['envelope_opts']['interp_method'] != 'splrep' and len(x) > 150:
                x = x[:150]
        else:
            c['extrema_opts'] = gens.ext_opts(rng)
        c['x'] = x
        c['family'] = case['family'] + '+fb'
        out.append(c)
    return out


def check_case(ctx, case):
    """Runs one sift under the probe and judges it. Returns the probe's path string (or None)."""
    from emd import sift as S
    from emd.support import EMDSiftCovergeError
    xin = np.asarray(case['x'])
    if case.get('presentation') in gens.VIEWS:
        xin, _ = gens.relayout(None, xin, case['presentation'])
    x = np.asarray(xin, dtype=float)
    io, eo, xo = case['imf_opts'], case['envelope_opts'], case['extrema_opts']
    dig = digest(x, io, eo, xo)
    ctx.count('presentation:' + case.get('presentation', 'plain'))
    probe = SiftProbe(S)
    clock = FastClock(case['clock_step']) if case.get('clock_step') else contextlib.nullcontext()
    if case.get('clock_step'):
        ctx.count('sifts_under_fast_clock')
    try:
        with probe, watchdog(case.get('watchdog', 30)), clock:
            imf = S.sift(xin if case.get('presentation') in gens.VIEWS else xin.copy(), imf_opts=dict(io), envelope_opts=dict(eo), extrema_opts=dict(xo))
    except WatchdogTimeout:
        ctx.count('watchdog')
        ctx.case(dig, False)
        return None
    except MonitorAbort as e:
        ctx.case(dig, False)
        ctx.violation('unbounded-extraction', 'an extraction inside sift exceeded its logical step bound: %s' % e, case)
        return None
    except EMDSiftCovergeError:
        ctx.count('raised_convergence')
        ctx.case(dig, False)
        return probe.paths()
    except Exception as e:
        ctx.case(dig, False)
        ctx.violation('exception:%s' % type(e).__name__,
                      'sift raised %s: %s on a finite signal with valid options' % (type(e).__name__, str(e)[:120]), case)
        return probe.paths()
    paths = probe.paths()
    ctx.case(dig, imf.ndim == 2 and imf.shape[1] >= 2)
    ctx.count('sifts_judged')
    # a decomposition belongs to the caller once it is returned: it is kept (untouched) and looked at again after later calls
    if len(x) <= 3000:
        HELD.append((imf, digest(np.asarray(imf)), case))
        if len(HELD) >= 40:
            recheck_held(ctx)
    ctx.add('path_signatures', ''.join(sorted(set(paths))))
    if 'B' in paths:
        ctx.count('sifts_with_pathB')
    ctx.count('extractions', len(paths))
    ctx.count('extractions_pathB', paths.count('B'))
    ctx.count('family:' + case['family'].split('+')[0])
    ctx.count('interp:' + eo['interp_method'])
    ctx.count('stop:' + io.get('stop_method', 'default'))
    if len(x) < 15:
        ctx.count('short_signals')
    if imf.ndim != 2 or imf.shape[0] != len(x):
        ctx.violation('shape', 'sift returned shape %s for input of length %d' % (imf.shape, len(x)), case)
        return paths
    if not np.all(np.isfinite(imf)):
        ctx.violation('nonfinite', 'sift returned non-finite values for finite input', case)
        return paths
    last = imf[:, -1]
    if np.abs(last).sum() < SIFT_THRESH:
        ctx.count('cut_by_sift_thresh')
        return paths
    k = imf.shape[1]
    scale = max(np.abs(x).max(), np.abs(imf).max(), 1e-300)
    tol = 64 * EPS * (k + 1) * scale
    err = np.abs(imf.sum(axis=1) - x).max()
    ctx.maxi('max_sum_err_over_tol', err / tol)
    if err > tol:
        key = 'sum-mismatch' + ('-pathB' if 'B' in paths else '')
        ctx.violation(key, 'components do not sum to the input: max|sum-x|=%.3g (tol %.3g, scale %.3g), %d components, '
                      'extraction exit paths %s' % (err, tol, scale, k, paths), case)
        return paths
    npk, ntr = count_extrema(last)
    if npk >= 2 and ntr >= 2:
        ctx.violation('oscillatory-residual', 'sift ended of its own accord but the last component has %d maxima and '
                      '%d minima (paths %s)' % (npk, ntr, paths), case)
    else:
        ctx.count('complete_and_nonoscillatory')
    return paths


HELD = []


def recheck_held(ctx):
    for imf, dg, case in HELD:
        ctx.count('held_results_rechecked')
        if digest(np.asarray(imf)) != dg:
            ctx.violation('result-changed-after-return', 'a decomposition returned earlier (and not touched by the caller) changed while later sifts '
                          'ran: the returned array is not the caller\'s own (family %s, %d samples)' % (case['family'], len(case['x'])), case)
            break
    del HELD[:]


def thread_cases(seed):
    r = np.random.default_rng(seed)
    n = int(gens.pick(r, [200, 400, 1000]))
    t = np.arange(n)
    sigs = [r.standard_normal(n), np.sin(2 * np.pi * t / 17.3) + .4 * np.sin(2 * np.pi * t / 71.) + .1 * r.standard_normal(n),
            t / n + 0.0, np.full(n, 2.5), np.cumsum(r.standard_normal(n))]
    from emd import sift as S
    return [(lambda v: (lambda: S.sift(v.copy())))(v) for v in sigs], {'seed': int(seed), 'n': n}


def run_shard(ctx):
    rng = ctx.rng
    if ctx.shard % 2 == 0:
        # schedules: sifts of equally long recordings (oscillatory ones next to a ramp and a constant) from five threads at once
        calls, tcase = thread_cases(int(rng.integers(1 << 30)))
        thread_probe(ctx, 'sift (%d samples)' % tcase['n'], calls, 25, tcase)
    n = NCASES[ctx.tier] // ctx.nshards
    corpus = []
    done = 0
    if ctx.shard % 4 == 1:
        for _ in range(2):
            for attempt in range(6):
                x, target = long_swell(rng)
                if target is not None and 2 in count_extrema(x):
                    break
            if target is None:
                continue
            if 2 in count_extrema(x):
                ctx.count('very_long_records_with_exactly_two_crests_or_troughs')
            ctx.count('very_long_records_with_extremum_on_block_edge')
            check_case(ctx, {'kind': 'sift', 'family': 'long-swell', 'x': x, 'imf_opts': gens.pick(rng, [{}, {'stop_method': 'rilling', 'env_step_size': .5}]),
                             'envelope_opts': {'interp_method': 'splrep'}, 'extrema_opts': gens.pick(rng, [{}, {'pad_width': 1}]), 'watchdog': 200})
    while done < n and not ctx.out_of_time():
        if corpus and rng.random() < .5:
            case = corpus.pop()
            ctx.count('feedback_cases')
        else:
            case = gen_case(rng)
        paths = check_case(ctx, case)
        done += 1
        if done <= 2:
            ctx.sample({'family': case['family'], 'n': len(case['x']), 'imf_opts': case['imf_opts'],
                        'envelope_opts': case['envelope_opts'], 'extrema_opts': case['extrema_opts'],
                        'x_head': np.round(case['x'][:6], 4), 'exit_paths': paths})
        if paths and 'B' in paths and len(corpus) < 200:
            corpus.extend(neighbours(rng, case))
    recheck_held(ctx)


def finalize(agg, tier):
    c = agg['counters']
    need = {'quick': 15, 'thorough': 300}[tier]
    r = []
    if c.get('sifts_with_pathB', 0) < need:
        r.append('only %d sifts contained a path-B extraction (need >= %d)' % (c.get('sifts_with_pathB', 0), need))
    if c.get('complete_and_nonoscillatory', 0) < 500:
        r.append('fewer than 500 sifts were judged complete')
    return r


def replay(ctx, case):
    if case.get('kind') == 'threads':
        for _ in range(5):
            calls, tcase = thread_cases(case['seed'])
            if not thread_probe(ctx, 'sift (%d samples)' % tcase['n'], calls, 25, tcase):
                break
        return
    print('exit paths:', check_case(ctx, case))
