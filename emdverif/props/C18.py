"""C18 - sift configurations are faithful, addressable and persistable.

Oracles:
 (a) variant(x) == variant(x, **get_config(v)) == get_config(v).get_func()(x)   (array_equal; global
     RNG seeded identically for the ensemble variants);
 (b) history model: a plain nested dict mirrors every random sequence of slash-path sets / gets /
     deletes, nested-index sets, len and iteration; after every step store == model and each
     operation succeeds or fails exactly as the equivalent nested indexing does; paths deeper than 3 raise;
 (c) YAML by file and by text/stream: same sift type, same options modulo tuple/ndarray -> list, and
     for valid option edits the reloaded get_func() behaves like the original on several signals."""
import collections
import copy
import io
import os
import shutil

import numpy as np

from .. import gens
from ..harness import WORK, digest, watchdog, WatchdogTimeout

MANIFEST = {
    'text': 'Held on every configuration exercised: for the four configurable variants the default config unpacked / as a partial must reproduce the no-option call bit-for-bit on seeded signals; seeded edit histories (<= 12 steps; scalars, None, strings, lists, tuples, arrays at all three depths; existing, new and over-deep paths) are mirrored by a nested-dict model and compared after every step; every resulting config and a family of valid option edits are written to YAML by both routes (file, text->stream) and read back: type and options must match (tuples/arrays may become lists) and for valid edits the reloaded partial must give array_equal output. Sampling, not proof. A quarter of the shards run in a session that turns Deprecation/Future/UserWarnings into errors.',
    'note': 'Trusted: PyYAML, numpy. YAML files live under /verif/.work. Exporting converts tuples inside the live config to lists (the store is compared modulo that conversion after an export).',
    'technique': 'history exploration against an executable nested-dict model + differential oracle between delivery routes and across YAML round trips',
}
BUDGET_S = {'quick': 60, 'thorough': 360}
NCASES = {'quick': 1600, 'thorough': 20000}
RULE = ('seeded random edit histories over the four variants\' configs (both YAML routes after each) and seeded valid option '
        'edits with behavioural comparison on 3 signals; non-trivial = the history changed the store or the edit changed an '
        'option; distinct by sha1 of (variant, history)')
ASSUMPTIONS = ['behavioural comparison uses small signals and nprocesses=1; ensemble variants are compared with the global RNG seeded identically']

VARIANTS = ['sift', 'mask_sift', 'ensemble_sift', 'complete_ensemble_sift']


def _nan_safe(v):
    if isinstance(v, list):
        return [_nan_safe(u) for u in v]
    return 'nan' if isinstance(v, float) and v != v else v


def norm(o):
    if isinstance(o, dict):
        return {k: norm(v) for k, v in o.items()}
    if isinstance(o, np.ndarray):
        return ('arr', _nan_safe(o.tolist()))
    if isinstance(o, tuple):
        return ('tup', [norm(v) for v in o])
    if isinstance(o, list):
        return [norm(v) for v in o]
    if isinstance(o, (np.floating,)):
        return float(o)
    if isinstance(o, (np.integer,)):
        return int(o)
    return o


def ynorm(o):
    """Equality modulo tuple / ndarray -> list (what a YAML round trip may do)."""
    if isinstance(o, dict):
        return {k: ynorm(v) for k, v in o.items()}
    if isinstance(o, np.ndarray):
        return ynorm(_nan_safe(o.tolist()))
    if isinstance(o, (tuple, list)):
        return [ynorm(v) for v in o]
    if isinstance(o, (np.floating,)):
        return float(o)
    if isinstance(o, (np.integer,)):
        return int(o)
    return o


def rand_value(rng):
    return [3, .25, None, 'abc', [1, 2], (1, 2.5), np.array([1., 2.]), True, -7, 1e-3, (0.05, 0.5, 0.05), 'pchip',
            ((3, 3),), [(2, 3)], [[1, 2], (3, 4)], {'a': (1, 2)},
            # arrays / tuples that are instances of a subclass (what np.load(mmap_mode=...), np.ma or a namedtuple hand over)
            {'__view__': 'memmap', 'data': [.25, .1, .04]}, {'__view__': 'masked', 'data': [1., .5]}, {'__view__': 'subclass', 'data': [2., 3.]},
            {'__view__': 'bigendian', 'data': [.3, .1]}, {'__namedtuple__': [0.05, 0.5, 0.05]},
            {}, {}, []][int(rng.integers(24))]      # (an option group emptied by the user and then refilled key by key)


_NT = collections.namedtuple('Thresholds', ['sd1', 'sd2', 'tol'])


def realise(v):
    """History values are kept in a replayable form; markers become the real objects when they are applied."""
    if isinstance(v, dict) and '__view__' in v:
        return gens._view(np.array(v['data'], dtype=float), v['__view__'])
    if isinstance(v, dict) and '__namedtuple__' in v:
        return _NT(*v['__namedtuple__'])
    return copy.deepcopy(v)


def signal_for(k, n=96):
    rng = np.random.default_rng(77 + k)
    t = np.arange(n)
    return np.sin(2 * np.pi * t / (7 + k)) + .5 * np.sin(2 * np.pi * t / (23 + 2 * k)) + .2 * rng.standard_normal(n) + t / n


def run_func(f, x, seed=4321):
    state = np.random.get_state()
    np.random.seed(seed)
    try:
        out = f(x.copy())
    finally:
        np.random.set_state(state)
    return out[0] if isinstance(out, tuple) else out


def check_defaults(ctx, case):
    from emd import sift as S
    name, k = case['variant'], case['signal']
    x = signal_for(k)
    ctx.case(digest('defaults', name, k), True)
    f = getattr(S, name)
    cfg = S.get_config(name)
    with watchdog(120):
        a = run_func(f, x)
        b = run_func(lambda v: f(v, **cfg), x)
        c = run_func(cfg.get_func(), x)
    ctx.count('default_comparisons:' + name)
    if a.shape != b.shape or not np.array_equal(a, b):
        ctx.violation('defaults-unpacked:' + name, '%s(x, **get_config(%r)) differs from %s(x)' % (name, name, name), case)
        return
    if a.shape != c.shape or not np.array_equal(a, c):
        ctx.violation('defaults-get_func:' + name, 'get_config(%r).get_func()(x) differs from %s(x)' % (name, name), case)
        return
    if cfg.sift_type != name:
        ctx.violation('config-type', 'get_config(%r).sift_type is %r' % (name, cfg.sift_type), case)


def mget(m, p):
    for k in p:
        m = m[k]
    return m


def yaml_roundtrips(ctx, S, cfg, name, case, wdir, tag):
    """Both routes; returns the reloaded configs (or None after reporting a violation)."""
    want = ynorm(cfg.store)
    out = []
    fn = os.path.join(wdir, 'cfg_%s.yml' % tag)
    for route in ('file', 'text'):
        try:
            if route == 'file':
                if ctx.evaluations % 3 == 0:
                    # the same file addressed by a bare name relative to the working directory
                    cwd = os.getcwd()
                    os.chdir(wdir)
                    try:
                        cfg.to_yaml_file(os.path.basename(fn))
                        back = S.SiftConfig.from_yaml_file(os.path.basename(fn))
                    finally:
                        os.chdir(cwd)
                    ctx.count('yaml_files_addressed_by_bare_name')
                else:
                    cfg.to_yaml_file(fn)
                    back = S.SiftConfig.from_yaml_file(fn)
            else:
                txt = cfg.to_yaml_text()
                # the text handed back as a str, or as any of the other stream forms a YAML document arrives in
                form = ctx.evaluations % 5
                carrier = [txt, txt, txt.encode(), io.BytesIO(txt.encode()), io.StringIO(txt)][form]
                ctx.count('yaml_text_carried_as:' + ['str', 'str', 'bytes', 'BytesIO', 'StringIO'][form])
                back = S.SiftConfig.from_yaml_stream(carrier)
        except Exception as e:
            ctx.violation('yaml-exception:%s:%s' % (route, type(e).__name__), 'YAML %s route raised %s: %s' % (route, type(e).__name__, str(e)[:100]), case)
            return None
        ctx.count('yaml_roundtrips:' + route)
        if back.sift_type != name:
            ctx.violation('yaml-type:' + route, 'config written by the %s route came back with sift_type %r instead of %r (store is a %s)'
                          % (route, back.sift_type, name, type(back.store).__name__), case)
            return None
        if not isinstance(back.store, dict) or ynorm(back.store) != want:
            ctx.violation('yaml-options:' + route, 'config written by the %s route came back with different options' % route, case)
            return None
        # the same text / file read again after a read-back copy was edited: every read gives the options that were written
        try:
            scratch = S.SiftConfig.from_yaml_stream(txt) if route == 'text' else S.SiftConfig.from_yaml_file(fn)
            for k in list(scratch.keys())[:4]:
                v = scratch[k]
                if isinstance(v, dict) and v:
                    kk = next(iter(v))
                    if isinstance(v[kk], dict) and v[kk]:
                        v[kk][next(iter(v[kk]))] = 'edited-copy'
                    else:
                        scratch[k + '/' + kk] = 'edited-copy'
                else:
                    scratch[k] = 'edited-copy'
            if len(scratch) > 1:
                del scratch[list(scratch.keys())[-1]]
            again = S.SiftConfig.from_yaml_stream(txt) if route == 'text' else S.SiftConfig.from_yaml_file(fn)
        except Exception as e:
            ctx.violation('yaml-reread-exception:%s:%s' % (route, type(e).__name__), 'reading the same YAML %s a second time raised %s: %s'
                          % (route, type(e).__name__, str(e)[:100]), case)
            return None
        ctx.count('yaml_rereads')
        if ynorm(again.store) != want or ynorm(back.store) != want:
            ctx.violation('yaml-reread:' + route, 'after a config read from the YAML %s was edited, %s' % (route, 'a second read of the same text gives '
                          'different options than were written' if ynorm(again.store) != want else 'the first read-back config changed as well'), case)
            return None
        out.append(back)
    return out


def check_history(ctx, case, wdir):
    from emd import sift as S
    name, hist = case['variant'], case['history']
    cfg = S.get_config(name)
    model = copy.deepcopy(cfg.store)
    start = norm(model)
    ctx.case(digest(name, repr([(h['op'], h['path'], repr(h.get('value'))) for h in hist])), True)
    exported = False
    for step, h in enumerate(hist):
        op, path = h['op'], h['path']
        key = '/'.join(path)
        ctx.count('edit_op:' + op)
        # model
        try:
            if len(path) > 3 and op not in ('len', 'iter'):
                raise ValueError('deep')
            if op in ('set', 'set_nested', 'update'):
                mm = mget(model, path[:-1])
                mm[path[-1]] = realise(h['value'])
                exp = ('ok', None)
            elif op == 'get':
                exp = ('ok', mget(model, path))
            elif op == 'del':
                mm = mget(model, path[:-1])
                del mm[path[-1]]
                exp = ('ok', None)
            elif op == 'len':
                exp = ('ok', len(model))
            elif op == 'iter':
                exp = ('ok', list(model))
        except Exception as e:
            exp = ('raise', type(e).__name__)
        # real
        try:
            if op == 'set':
                cfg[key] = realise(h['value'])
                got = ('ok', None)
            elif op == 'update':
                # the mapping's own update(): the same as item assignment, entry by entry (the new value REPLACES the old one)
                cfg.update({key: realise(h['value'])})
                got = ('ok', None)
            elif op == 'set_nested':
                tgt = cfg
                for k in path[:-1]:
                    tgt = tgt[k]
                tgt[path[-1]] = realise(h['value'])
                got = ('ok', None)
            elif op == 'get':
                got = ('ok', cfg[key])
            elif op == 'del':
                del cfg[key]
                got = ('ok', None)
            elif op == 'len':
                got = ('ok', len(cfg))
            elif op == 'iter':
                got = ('ok', list(cfg))
        except Exception as e:
            got = ('raise', type(e).__name__)
        if len(path) > 3 and op not in ('len', 'iter'):
            ctx.count('overdeep_paths')
        if exp[0] != got[0]:
            ctx.violation('keypath-%s:%s-vs-%s' % (op, exp[0], got[0]), 'step %d: %s %r %s with nested indexing but %s through the config (%s / %s)'
                          % (step, op, key, 'succeeds' if exp[0] == 'ok' else 'fails', 'succeeded' if got[0] == 'ok' else 'failed', exp[1], got[1]), case)
            return
        if exp[0] == 'ok' and (ynorm(exp[1]) != ynorm(got[1]) if exported else norm(exp[1]) != norm(got[1])):
            ctx.violation('keypath-%s-value' % op, 'step %d: %s %r returned %r, nested indexing gives %r' % (step, op, key, got[1], exp[1]), case)
            return
        same = (ynorm(cfg.store) == ynorm(model)) if exported else (norm(cfg.store) == norm(model))
        if not same:
            ctx.violation('keypath-%s-store' % op, 'step %d: after %s %r the config holds different entries than the nested-dict model'
                          % (step, op, key), case)
            return
        ctx.count('edit_steps_ok')
        if h.get('export'):
            if yaml_roundtrips(ctx, S, cfg, name, case, wdir, 'h') is None:
                return
            exported = True
    if norm(model) != start:
        ctx.count('histories_that_changed_the_store')
    if yaml_roundtrips(ctx, S, cfg, name, case, wdir, 'h') is not None:
        ctx.count('histories_ok')


VALID_EDITS = {
    'common': [('imf_opts/sd_thresh', [.05, .2]), ('imf_opts/stop_method', ['rilling', 'fixed']), ('imf_opts/rilling_thresh', [(0.1, 0.8, 0.1)]),
               ('imf_opts/max_iters', [3, 5]), ('imf_opts/env_step_size', [.5]), ('envelope_opts/interp_method', ['pchip', 'mono_pchip']),
               ('extrema_opts/pad_width', [1, 3]), ('extrema_opts/parabolic_extrema', [True]), ('max_imfs', [2, 3]),
               ('extrema_opts/mag_pad_opts/stat_length', [2]), ('sift_thresh', [1e-6])],
    'mask_sift': [('mask_freqs', ['if', 0.2, [0.3, 0.1, 0.04], np.array([0.25, 0.1])]), ('mask_amp', [.5, np.array([1., .5, .5, .5, .5, .5, .5, .5, .5])]),
                  ('mask_amp_mode', ['ratio_sig', 'abs']), ('nphases', [2]), ('mask_step_factor', [3])],
    'ensemble_sift': [('nensembles', [2, 3]), ('ensemble_noise', [.1]), ('noise_mode', ['flip'])],
    'complete_ensemble_sift': [('nensembles', [2, 3]), ('ensemble_noise', [.1]), ('noise_mode', ['flip'])],
}


def check_valid_edit(ctx, case, wdir):
    from emd import sift as S
    from emd.support import EMDSiftCovergeError
    name, edits = case['variant'], case['edits']
    cfg = S.get_config(name)
    for k, v in edits:
        cfg[k] = copy.deepcopy(v)
    if name != 'sift' and 'max_imfs' not in dict(edits):
        cfg['max_imfs'] = 3
    ctx.case(digest(name, repr(edits)), len(edits) > 0)
    # the edits must be readable both ways
    for k, v in dict(edits).items():     # (a later edit of the same key wins)
        path = k.split('/')
        if norm(cfg[k]) != norm(v) or norm(mget(cfg.store, path)) != norm(v):
            ctx.violation('keypath-set-get', 'cfg[%r] = %r is not read back by path and by nested indexing' % (k, v), case)
            return
    # the same configuration delivered by unpacking and as a partial must behave alike - including failing alike when
    # an option was set to a value the variant cannot work with
    f = getattr(S, name)
    x0 = signal_for(case['signals'][0])

    def outcome(call):
        try:
            with watchdog(120):
                return ('ok', run_func(call, x0))
        except WatchdogTimeout:
            raise
        except EMDSiftCovergeError:
            return ('convergence', None)
        except Exception as e:
            return ('raise', type(e).__name__)
    try:
        o1 = outcome(lambda v: f(v, **cfg))
        o2 = outcome(cfg.get_func())
    except WatchdogTimeout:
        ctx.count('watchdog')
        return
    ctx.count('route_equivalence_checks')
    if o1[0] != o2[0] or (o1[0] == 'ok' and (o1[1].shape != o2[1].shape or not np.array_equal(o1[1], o2[1]))):
        ctx.violation('route-divergence', '%s(x, **config) %s but config.get_func()(x) %s after the edits %s'
                      % (name, 'returned' if o1[0] == 'ok' else 'raised ' + str(o1[1]), 'returned' if o2[0] == 'ok' else 'raised ' + str(o2[1]),
                         [(k, repr(v)[:30]) for k, v in edits]), case)
        return
    if o1[0] == 'convergence':
        ctx.count('edits_ending_in_the_convergence_error_on_both_routes')
        return
    if o1[0] != 'ok':
        if any(v is None for _, v in edits):
            # an option switched off may be one the variant cannot do without: rejected by both routes alike
            ctx.count('edits_rejected_by_both_routes')
            return
        # every value in this table is a documented, valid value for its option: the configured call has to run
        ctx.violation('exception:valid:%s' % o1[1], 'valid option edit %s on %s raised %s (through both **config and get_func())'
                      % ([(k, repr(v)[:30]) for k, v in edits], name, o1[1]), case)
        return
    backs = yaml_roundtrips(ctx, S, cfg, name, case, wdir, 'v')
    if backs is None:
        return
    try:
        with watchdog(180):
            for sk in case['signals']:
                x = signal_for(sk)
                ref = run_func(cfg.get_func(), x)
                for route, back in zip(('file', 'text'), backs):
                    out = run_func(back.get_func(), x)
                    ctx.count('behavioural_comparisons:' + name)
                    if out.shape != ref.shape or not np.array_equal(out, ref):
                        ctx.violation('yaml-behaviour:' + route, 'config reloaded through the %s route gives a different decomposition than the '
                                      'original (%s vs %s)' % (route, out.shape, ref.shape), case)
                        return
    except WatchdogTimeout:
        ctx.count('watchdog')
    except EMDSiftCovergeError:
        ctx.count('raised_convergence')


def gen_history(rng, name):
    from emd import sift as S
    model = copy.deepcopy(S.get_config(name).store)
    h = []
    for _ in range(int(rng.integers(3, 13))):
        depth = int(gens.pick(rng, [1, 2, 2, 3, 3, 4]))
        path, d = [], model
        for lv in range(depth):
            keys = list(d.keys()) if isinstance(d, dict) else []
            k = str(gens.pick(rng, keys)) if keys and rng.random() < .8 else gens.pick(rng, ['new%d', 'new.%d', 'new-%d_x']) % rng.integers(0, 3)
            path.append(k)
            d = d.get(k) if isinstance(d, dict) and isinstance(d.get(k), dict) else {}
        op = gens.pick(rng, ['set', 'set', 'set_nested', 'get', 'del', 'len', 'iter', 'update'])
        if op in ('set', 'set_nested', 'update') and len(path) == 1 and path[0] in ('imf_opts', 'envelope_opts', 'extrema_opts'):
            op = 'get'   # replacing a whole option group by a scalar is not an edit of an option
        step = {'op': op, 'path': path, 'export': bool(rng.random() < .1)}
        if op in ('set', 'set_nested', 'update'):
            step['value'] = rand_value(rng) if (op != 'update' or rng.random() < .5) else gens.pick(rng, [{'mode': 'mean'}, {'mode': 'maximum', 'stat_length': 3}, {'b': 2}])
        # keep the generator's shadow in step so later paths are interesting
        try:
            if len(path) <= 3:
                if op in ('set', 'set_nested', 'update'):
                    mget(model, path[:-1])[path[-1]] = copy.deepcopy(step['value'])     # (a copy: later steps edit the shadow in place)
                elif op == 'del':
                    del mget(model, path[:-1])[path[-1]]
        except Exception:
            pass
        h.append(step)
    if rng.random() < .08:
        # every entry deleted one by one ("all defaults"): an empty configuration is still a configuration of its variant
        for k in list(model.keys()):
            h.append({'op': 'del', 'path': [k], 'export': False})
        h.append({'op': 'len', 'path': [], 'export': True})
        return h
    if rng.random() < .25:
        # an option group emptied and then refilled through key paths (the group itself may be replaced by an empty dict here:
        # it stays a dictionary)
        grp = gens.pick(rng, [['imf_opts'], ['envelope_opts'], ['extrema_opts'], ['extrema_opts', 'mag_pad_opts'], ['extrema_opts', 'loc_pad_opts']])
        fill = {'imf_opts': [('stop_method', 'rilling'), ('max_iters', 50)], 'envelope_opts': [('interp_method', 'mono_pchip')],
                'extrema_opts': [('pad_width', 3)], 'mag_pad_opts': [('mode', 'maximum'), ('stat_length', 2)], 'loc_pad_opts': [('mode', 'reflect'), ('reflect_type', 'odd')]}[grp[-1]]
        h.append({'op': 'set', 'path': list(grp), 'value': {}, 'export': False})
        for k, v in fill:
            h.append({'op': 'set', 'path': list(grp) + [k], 'value': v, 'export': False})
        h.append({'op': 'get', 'path': list(grp), 'export': True})
    return h


def run_shard(ctx):
    rng = ctx.rng
    wdir = os.path.join(WORK, 'C18', 'yaml_%d' % ctx.shard)
    shutil.rmtree(wdir, ignore_errors=True)
    os.makedirs(wdir, exist_ok=True)
    n = NCASES[ctx.tier] // ctx.nshards
    # (a) defaults: every variant x 3 (quick) / 12 (thorough) signals, split over the shards
    nsig = 3 if ctx.tier == 'quick' else 12
    jobs = [(v, k) for v in VARIANTS for k in range(nsig)]
    for j, (v, k) in enumerate(jobs):
        if j % ctx.nshards == ctx.shard:
            case = {'kind': 'defaults', 'variant': v, 'signal': k}
            try:
                check_defaults(ctx, case)
            except WatchdogTimeout:
                ctx.count('watchdog')
            except Exception as e:
                ctx.violation('exception:defaults:%s' % type(e).__name__, 'default-config comparison raised %s: %s' % (type(e).__name__, str(e)[:100]), case)
    for i in range(n):
        if ctx.out_of_time():
            break
        name = gens.pick(rng, VARIANTS)
        if rng.random() < .8:
            case = {'kind': 'history', 'variant': name, 'history': gen_history(rng, name)}
            check_history(ctx, case, wdir)
        else:
            pool = VALID_EDITS['common'] + VALID_EDITS.get(name, [])
            picks = rng.permutation(len(pool))[:int(rng.integers(1, 4))]
            edits = [(pool[j][0], gens.pick(rng, pool[j][1])) for j in picks]
            if rng.random() < .25:
                # an option switched off / emptied by the user: None where the default is something else
                edits.append((gens.pick(rng, ['sift_thresh', 'max_imfs', 'imf_opts/energy_thresh', 'extrema_opts/mag_pad_opts', 'extrema_opts/loc_pad_opts',
                                              'envelope_opts/interp_method'] + (['nensembles', 'ensemble_noise', 'noise_mode'] if 'ensemble' in name else [])
                                        + (['mask_amp', 'nphases', 'mask_freqs'] if name == 'mask_sift' else [])), None))
                edits = [e for e in edits if not e[0].startswith(edits[-1][0] + '/')]
                ctx.count('edits_with_None')
            ed = dict(edits)
            if ed.get('imf_opts/stop_method') == 'fixed' and 'imf_opts/max_iters' not in ed:
                edits.append(('imf_opts/max_iters', 4))
            case = {'kind': 'valid', 'variant': name, 'edits': edits, 'signals': [int(rng.integers(0, 12))] if ctx.tier == 'quick' else [0, 1, 2]}
            try:
                check_valid_edit(ctx, case, wdir)
            except Exception as e:
                ctx.violation('exception:valid:%s' % type(e).__name__, 'valid option edit %s on %s raised %s: %s' % (edits, name, type(e).__name__, str(e)[:100]), case)
        if i < 2:
            ctx.sample({k: (v if k != 'history' else [{kk: repr(vv) for kk, vv in s.items()} for s in v]) for k, v in case.items()})
    shutil.rmtree(wdir, ignore_errors=True)


def finalize(agg, tier):
    c = agg['counters']
    r = []
    for v in VARIANTS:
        if c.get('default_comparisons:' + v, 0) < 3:
            r.append('defaults of %s compared only %d times' % (v, c.get('default_comparisons:' + v, 0)))
        if c.get('behavioural_comparisons:' + v, 0) < 10:
            r.append('fewer than 10 behavioural YAML comparisons for %s' % v)
    for k, need in [('edit_steps_ok', 2000), ('overdeep_paths', 50), ('yaml_roundtrips:file', 300), ('yaml_roundtrips:text', 300),
                    ('histories_that_changed_the_store', 200)]:
        if c.get(k, 0) < need:
            r.append('%s: %d < %d' % (k, c.get(k, 0), need))
    return r


def replay(ctx, case):
    wdir = os.path.join(WORK, 'C18', 'yaml_replay')
    os.makedirs(wdir, exist_ok=True)
    if case['kind'] == 'defaults':
        check_defaults(ctx, case)
    elif case['kind'] == 'history':
        check_history(ctx, case, wdir)
    else:
        case['edits'] = [tuple(e) for e in case['edits']]
        check_valid_edit(ctx, case, wdir)
    shutil.rmtree(wdir, ignore_errors=True)
