"""C13 - good cycles are exactly those meeting the documented phase criteria.

Oracle: a wrap-delimited segment is labelled iff its phase is strictly increasing, starts in
[0, phase_edge], ends in [2pi - phase_edge, 2pi] and the validity mask is true on all its samples;
labels run 0..G-1 in temporal order. is_good() called directly on each segment and the per-cycle
quality flag stored by the Cycles container (built with the same phase_edge) must agree."""
import itertools

import numpy as np

from .. import gens
from ..harness import digest, quiet
from .C12 import ref_partition, ALPHA

MANIFEST = {
    'text': 'Held on every call executed: get_cycle_vector(return_good=True, mask=...) , is_good and Cycles(...).metrics["is_good"] are compared with the documented predicate on EVERY phase sequence of length 2..6 (quick) / 2..8 (thorough) over a 5-value alphabet x phase_edge in {0.05, pi/12, 0.5, pi/2}, with boolean masks {none, random 5% false, one false block}, and on seeded synthetic phases (clean, noisy, reversing) with masks; containers are built with cache on and off. Exhaustive at the stated bound, sampling beyond. Schedules: the same deterministic calls made from 4-5 threads of one interpreter at once (thread switch every 1-10 microseconds) must reproduce the results obtained alone. Returned check vectors are held untouched and re-read after later calls. A quarter of the shards run in a session that turns Deprecation/Future/UserWarnings into errors.',
    'note': 'Trusted: numpy. The optional control-point check (waveform argument) is not part of the property and not exercised.',
    'technique': 'reference-predicate oracle on the real cycle labelling / is_good / container flag, exhaustive small-scope enumeration + seeded random',
}
LOGGER_ON_ODD_SHARDS = True
BUDGET_S = {'quick': 60, 'thorough': 420}
MAXLEN = {'quick': 6, 'thorough': 8}
NRANDOM = {'quick': 2500, 'thorough': 30000}
EXHAUSTIVE = {'quick': True, 'thorough': True}
EXHAUSTIVE_SCOPE = {'quick': 'every sequence of length 2..6 over {0.05,1.4,3.1,4.9,6.2} x 4 phase_edge values (mask none) + masked variants of every 7th sequence',
                    'thorough': 'every sequence of length 2..8 over {0.05,1.4,3.1,4.9,6.2} x 4 phase_edge values (mask none) + masked variants of every 7th sequence'}
RULE = ('exhaustive enumeration of phase sequences x phase_edge, masked variants, and seeded synthetic phases with masks; '
        'non-trivial = at least one wrap-delimited segment exists; distinct by (sequence, phase_edge, mask)')
ASSUMPTIONS = ['phase_step is the default 1.5 pi for the enumeration and drawn from {pi, 1.5pi, 1.9pi} for synthetic phases']

EDGES = (0.05, np.pi / 12, 0.5, np.pi / 2)
STEP = 1.5 * np.pi
OLD = []   # a few containers kept alive across cases (history: older containers must not change)


def good_pred(seg, edge):
    return bool(np.all(np.diff(seg) > 0) and 0 <= seg[0] <= edge and 2 * np.pi - edge <= seg[-1] <= 2 * np.pi)


def check(ctx, phi, edge, mask, step, case, tag, container=True):
    from emd import cycles as C
    lab, segs = ref_partition(phi, step)
    ctx.case(digest(phi, edge, mask, step), len(segs) > 0)
    preds = [good_pred(phi[s:e], edge) for s, e in segs]
    want = np.full(len(phi), -1, dtype=int)
    k = 0
    for (s, e), g in zip(segs, preds):
        if g and (mask is None or bool(np.all(mask[s:e]))):
            want[s:e] = k
            k += 1
    ctx.count('labellings:' + tag)
    try:
        with quiet():
            got = np.asarray(C.get_cycle_vector(phi.copy(), return_good=True, mask=(None if mask is None else mask.copy()),
                                                phase_step=step, phase_edge=edge)).reshape(-1)
    except Exception as e:
        ctx.violation('good-exception:%s%s' % (type(e).__name__, ':mask' if mask is not None else ''),
                      'get_cycle_vector(return_good=True%s) raised %s: %s' % (', mask' if mask is not None else '', type(e).__name__, str(e)[:100]), case)
        return
    if not np.array_equal(got, want):
        # classify the disagreement
        key = 'good-labelling'
        gotsegs = [tuple(got[s:e]) for s, e in segs]
        for (s, e), g in zip(segs, preds):
            v = got[s:e]
            labelled = bool(np.all(v >= 0))
            m_ok = mask is None or bool(np.all(mask[s:e]))
            if labelled and not g:
                seg = phi[s:e]
                if not np.all(np.diff(seg) > 0):
                    key = 'good-accepts-nonmonotonic'
                elif not (0 <= seg[0] <= edge):
                    key = 'good-accepts-bad-start'
                else:
                    key = 'good-accepts-bad-end'
                break
            if labelled and g and not m_ok:
                key = 'good-ignores-mask'
                break
            if not labelled and g and m_ok:
                key = 'good-rejects-valid'
                break
        ctx.violation(key, 'good-cycle labelling %s, expected %s (phase %s, phase_edge %.3g%s)'
                      % (got.tolist()[:14], want.tolist()[:14], np.round(phi, 2).tolist()[:14], edge,
                         ', mask %s' % mask.astype(int).tolist()[:14] if mask is not None else ''), case)
        return
    ctx.count('good_labelling_ok')
    if k:
        ctx.count('labellings_with_good_cycles')
    if mask is not None:
        ctx.count('masked_labellings')
        if any(g and not np.all(mask[s:e]) for (s, e), g in zip(segs, preds)):
            ctx.count('mask_vetoed_a_good_cycle')
    if mask is None:
        for (s, e), g in zip(segs, preds):
            r = C.is_good(phi[s:e].copy(), phase_edge=edge)
            ctx.count('is_good_calls')
            if bool(r) != g:
                ctx.violation('is_good', 'is_good(%s, phase_edge=%.3g) = %s, predicate says %s' % (np.round(phi[s:e], 3).tolist()[:10], edge, r, g), case)
                return
            if ctx.evaluations % 5 == 0:
                # the separate checks: kept by the caller (untouched) and looked at again after later calls
                seg = phi[s:e]
                checks = C.is_good(seg.copy(), ret_all_checks=True, phase_edge=edge)
                crit = [bool(np.all(np.diff(seg) > 0)), bool(0 <= seg[0] <= edge), bool(2 * np.pi - edge <= seg[-1] <= 2 * np.pi), True]
                ctx.count('separate_checks_compared')
                if [bool(v) for v in np.asarray(checks).reshape(-1)] != crit:
                    ctx.violation('is_good-separate-checks', 'is_good(..., ret_all_checks=True) = %s, the documented criteria give %s (phase %s, phase_edge %.3g)'
                                  % (np.asarray(checks).astype(int).tolist(), [int(v) for v in crit], np.round(seg, 3).tolist()[:10], edge), case)
                    return
                HELD.append((checks, crit, case))
                if len(HELD) >= 30:
                    if not recheck_held(ctx):
                        return
    if container and segs and mask is None:
        # containers built earlier must still report their own flags after newer ones exist
        for (ocyc, opreds, oedge) in list(OLD):
            oflags = np.asarray(ocyc.metrics['is_good']).astype(int)
            ctx.count('old_containers_rechecked')
            if len(oflags) != len(opreds) or not np.array_equal(oflags, np.array(opreds, dtype=int)):
                ctx.violation('container-shared-state', "an older Cycles(phase_edge=%.3g) container reports is_good = %s after newer containers "
                              "were built; its own phase gives %s" % (oedge, oflags.tolist()[:12], [int(q) for q in opreds][:12]),
                              dict(case, note='needs a history: build several containers, then read an older one'))
                OLD.clear()
                return
        for cache in (True, False):
            try:
                as_col = bool(ctx.rng.random() < .3)      # the same phase handed over as a single column
                extra = {}
                if ctx.rng.random() < .3:
                    # the other documented constructor options: the quality flags do not depend on them
                    extra = {'mode': gens.pick(ctx.rng, ['augmented', 'cycle']), 'compute_timings': bool(ctx.rng.random() < .5)}
                    ctx.count('containers_with_mode:' + extra['mode'])
                cyc = C.Cycles(phi[:, None].copy() if as_col else phi.copy(), phase_step=step, phase_edge=edge, use_cache=cache, **extra)
                if as_col:
                    ctx.count('containers_from_column_input')
                flags = np.asarray(cyc.metrics['is_good']).astype(int)
            except Exception as e:
                ctx.violation('container-exception:%s' % type(e).__name__, 'Cycles(...) raised %s: %s' % (type(e).__name__, str(e)[:100]), case)
                return
            ctx.count('containers')
            if cache and (len(OLD) < 4):
                OLD.append((cyc, list(preds), edge))
            elif cache and ctx.rng.random() < .05:
                OLD[int(ctx.rng.integers(len(OLD)))] = (cyc, list(preds), edge)
            if len(flags) != len(preds) or not np.array_equal(flags, np.array(preds, dtype=int)):
                dflt = [good_pred(phi[s:e], np.pi / 12) for s, e in segs]
                key = 'container-is_good'
                if len(flags) == len(preds) and np.array_equal(flags, np.array(dflt, dtype=int)):
                    key = 'container-ignores-phase_edge'
                ctx.violation(key, "Cycles(phase_edge=%.3g, use_cache=%s).metrics['is_good'] = %s, predicate with that edge gives %s"
                              % (edge, cache, flags.tolist()[:12], [int(p) for p in preds][:12]), case)
                return
        ctx.count('container_flags_ok')
        if abs(edge - np.pi / 12) > 1e-9 and preds != [good_pred(phi[s:e], np.pi / 12) for s, e in segs]:
            ctx.count('container_cases_where_edge_matters')


HELD = []


def recheck_held(ctx):
    ok = True
    for checks, crit, case in HELD:
        ctx.count('held_check_vectors_rechecked')
        if [bool(v) for v in np.asarray(checks).reshape(-1)] != crit:
            ctx.violation('result-changed-after-return', 'a vector of separate checks returned by is_good earlier (and not touched by the caller) now reads %s, '
                          'its own segment gives %s: later calls rewrote it' % (np.asarray(checks).astype(int).tolist(), [int(v) for v in crit]), case)
            ok = False
            break
    del HELD[:]
    return ok


def thread_cases(seed):
    """Good-cycle labelling and containers for different phase series (good and bad cycles mixed) from different threads at once."""
    from emd import cycles as C
    r = np.random.default_rng(seed)
    calls = []
    for k in range(4):
        ph = gens.synthetic_phase(r, ncycles=int(r.integers(150, 300)), noise=float(gens.pick(r, [0, .1, .2])), reversals=bool(k % 2))
        if k < 2:
            calls.append((lambda p: (lambda: C.get_cycle_vector(p.copy(), return_good=True)))(ph))
        else:
            calls.append((lambda p: (lambda: np.asarray(C.Cycles(p.copy()).metrics['is_good'], dtype=float)))(ph))
    return calls, {'seed': int(seed)}


def thread_check(ctx, seed):
    from ..monitors import thread_probe
    calls, tcase = thread_cases(seed)
    with quiet():
        return thread_probe(ctx, 'get_cycle_vector(return_good=True) / Cycles', calls, 8, tcase, interval=1e-6)


def long_phase(L, pos, variant):
    one = np.linspace(0.01, 2 * np.pi - 0.01, L)
    mid = one.copy()
    if variant == 'swap':
        mid[pos], mid[pos + 1] = mid[pos + 1], mid[pos]        # one backward step
    elif variant == 'flat':
        mid[pos + 1] = mid[pos]                                # one flat step
    return np.concatenate([one, mid, one])


def masks_for(rng, n):
    m1 = rng.random(n) > .05
    m2 = np.ones(n, dtype=bool)
    a = int(rng.integers(0, n))
    m2[a:a + int(rng.integers(1, max(2, n // 4)))] = False
    return [m1, m2]


def run_shard(ctx):
    rng = ctx.rng
    idx = 0
    if ctx.shard % 4 == 3:
        thread_check(ctx, int(rng.integers(1 << 30)))
    for _ in range(3):
        # very long (slow) cycles with a single flat or backward step at a round position inside the middle one
        L = int(gens.pick(rng, [12500, 20000, 40000, 70000]))
        pos = int(gens.pick(rng, [1000, 4096, 8192, 10000, 16384, 20000, 32768, 65536])) - int(gens.pick(rng, [0, 0, 1]))
        if pos >= L - 2:
            pos = 10000 - 1
        variant = gens.pick(rng, ['swap', 'swap', 'flat', 'flat', 'none'])
        ctx.count('very_long_cycles')
        check(ctx, long_phase(L, pos, variant), np.pi / 12, None, STEP, {'kind': 'c13long', 'L': L, 'pos': pos, 'variant': variant}, 'long', container=False)
    for L in range(2, MAXLEN[ctx.tier] + 1):
        for seq in itertools.product(ALPHA, repeat=L):
            idx += 1
            if idx % ctx.nshards != ctx.shard:
                continue
            phi = np.array(seq)
            for edge in EDGES:
                check(ctx, phi, edge, None, STEP, {'kind': 'c13', 'phase': phi, 'phase_edge': edge, 'mask': None, 'phase_step': STEP}, 'enum')
            if (idx // ctx.nshards) % 7 == 0:
                for mask in masks_for(rng, L):
                    edge = EDGES[int(rng.integers(len(EDGES)))]
                    check(ctx, phi, edge, mask, STEP, {'kind': 'c13', 'phase': phi, 'phase_edge': edge, 'mask': mask, 'phase_step': STEP}, 'enum-mask')
            if idx < 40 and ctx.shard == 0:
                ctx.sample({'phase': list(seq), 'phase_edges': [round(e, 4) for e in EDGES]})
    ctx.count('exhaustive_done')
    n = NRANDOM[ctx.tier] // ctx.nshards
    for i in range(n):
        if ctx.out_of_time():
            break
        r = rng.random()
        phi = gens.synthetic_phase(rng, noise=(0.0 if r < .5 else float(rng.uniform(0, .2))), reversals=bool(r > .7),
                                   ncycles=(int(rng.integers(100, 300)) if i % 40 == 7 else None))
        if i % 40 == 11:
            phi = np.tile(np.linspace(0.05, 6.2, int(rng.integers(6, 30))), int(rng.integers(3, 100)))    # exactly periodic good cycles
        if r < .5:
            # make some cycles start/end close to the edges
            phi = np.mod(phi - phi[0] + rng.uniform(0, .1), 2 * np.pi)
        edge = float(gens.pick(rng, list(EDGES) + [float(rng.uniform(0.01, np.pi / 2))]))
        step = float(gens.pick(rng, [np.pi, 1.5 * np.pi, 1.9 * np.pi]))
        mask = None if rng.random() < .4 else masks_for(rng, len(phi))[int(rng.integers(2))]
        if rng.random() < .25:
            phi, _ = gens.relayout(rng, phi, 'strided')
            if mask is not None:
                mask, _ = gens.relayout(rng, mask, 'strided')
            ctx.count('strided_inputs')
        check(ctx, phi, edge, mask, step, {'kind': 'c13', 'phase': phi, 'phase_edge': edge, 'mask': mask, 'phase_step': step}, 'synthetic')
        if i % 6 == 1:
            # multi-column input: each column must be labelled as it is on its own, wherever a wrap-free column sits
            from emd import cycles as C
            flat = np.full(len(phi), float(rng.uniform(.5, 5)))
            other = gens.synthetic_phase(rng, n=len(phi), ncycles=12)
            cols = [np.asarray(phi), flat] + ([other] if len(other) == len(phi) else [])
            order = rng.permutation(len(cols))
            P = np.stack([cols[j] for j in order], axis=1)
            try:
                with quiet():
                    got = C.get_cycle_vector(P.copy(), return_good=True, phase_step=step, phase_edge=edge)
                ctx.count('multicolumn_good_calls')
                for j in range(P.shape[1]):
                    with quiet():
                        single = np.asarray(C.get_cycle_vector(P[:, j].copy(), return_good=True, phase_step=step, phase_edge=edge)).reshape(-1)
                    if got.shape != P.shape or not np.array_equal(got[:, j], single):
                        ctx.violation('good-multicolumn', 'column %d of the multi-column good-cycle labelling differs from the labelling of that column '
                                      'alone (a wrap-free column is at index %d)' % (j, int(np.where(order == 1)[0][0])),
                                      {'kind': 'c13multi', 'phase': P, 'phase_edge': edge, 'phase_step': step})
                        break
            except Exception as ex:
                ctx.violation('good-multicolumn-exception:%s' % type(ex).__name__, 'multi-column good-cycle labelling raised %s' % str(ex)[:100],
                              {'kind': 'c13multi', 'phase': P, 'phase_edge': edge, 'phase_step': step})
        if i % 3 == 0:
            # boundary probing: cycles that start / end a hair inside or outside the edge tolerance
            probe = []
            for _ in range(int(rng.integers(2, 6))):
                d0 = float(gens.pick(rng, [0, 1e-12, 1e-9, 1e-6, 3e-5, 1e-4, 1e-3])) * float(gens.pick(rng, [-1, 1]))
                d1 = float(gens.pick(rng, [0, 1e-12, 1e-9, 1e-6, 3e-5, 1e-4, 1e-3])) * float(gens.pick(rng, [-1, 1]))
                a = min(max(edge + d0, 0.0), 2.0) if rng.random() < .5 else float(rng.uniform(0, edge))
                b = 2 * np.pi - edge + d1 if rng.random() < .7 else float(rng.uniform(2 * np.pi - edge, 2 * np.pi))
                b = min(b, np.nextafter(2 * np.pi, 0))
                k = int(rng.integers(3, 9))
                inner = np.sort(rng.uniform(a + 1e-3, b - 1e-3, k - 2)) if b - a > 1e-2 else np.array([])
                probe.append(np.r_[a, inner, b])
            if rng.random() < .3:
                # strictness of "increasing": a cycle that starts at (or next to) 0 and creeps up by less than machine epsilon first
                tiny = float(gens.pick(rng, [5e-324, 1e-300, 1e-17, 2e-16, 1e-16]))
                a0 = float(gens.pick(rng, [0.0, 0.0, 1e-3]))
                a1 = a0 + tiny if a0 == 0.0 else float(np.nextafter(a0, 1))
                probe.append(np.r_[a0, a1, np.sort(rng.uniform(.01, 2 * np.pi - edge - .01, 4)), 2 * np.pi - edge / 2])
                ctx.count('sub_epsilon_increment_cases')
            phi2 = np.concatenate(probe)
            ctx.count('edge_probing_cases')
            check(ctx, phi2, edge, None, STEP, {'kind': 'c13', 'phase': phi2, 'phase_edge': edge, 'mask': None, 'phase_step': STEP}, 'edge-probe')


def finalize(agg, tier):
    c = agg['counters']
    r = []
    want = sum(5 ** L for L in range(2, MAXLEN[tier] + 1)) * 4
    if c.get('labellings:enum', 0) != want:
        r.append('enumerated %d (sequence, edge) pairs, expected %d' % (c.get('labellings:enum', 0), want))
    for k, need in [('labellings_with_good_cycles', 300), ('mask_vetoed_a_good_cycle', 20), ('container_cases_where_edge_matters', 100),
                    ('is_good_calls', 1000), ('labellings:synthetic', 1000)]:
        if c.get(k, 0) < need:
            r.append('%s: %d < %d' % (k, c.get(k, 0), need))
    return r


def replay(ctx, case):
    if case.get('kind') == 'threads':
        for _ in range(5):
            if not thread_check(ctx, case['seed']):
                break
        return
    if case.get('kind') == 'c13long':
        return check(ctx, long_phase(case['L'], case['pos'], case['variant']), np.pi / 12, None, STEP, case, 'replay', container=False)
    if case.get('kind') == 'c13multi':
        from emd import cycles as C
        P = np.asarray(case['phase'], float)
        got = C.get_cycle_vector(P.copy(), return_good=True, phase_step=case['phase_step'], phase_edge=case['phase_edge'])
        for j in range(P.shape[1]):
            single = np.asarray(C.get_cycle_vector(P[:, j].copy(), return_good=True, phase_step=case['phase_step'], phase_edge=case['phase_edge'])).reshape(-1)
            if not np.array_equal(got[:, j], single):
                ctx.violation('good-multicolumn', 'column %d differs from its single-column labelling' % j, case)
        return
    m = case.get('mask')
    check(ctx, np.asarray(case['phase'], float), case['phase_edge'], None if m is None else np.asarray(m, bool), case['phase_step'], case, 'replay')
