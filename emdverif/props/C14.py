"""C14 - per-cycle statistics and phase alignment use exactly each cycle's samples.

Oracles:
 * get_cycle_stat(labels, v, func)[k] == func(v[labels == k]) for arbitrary label vectors with -1
   gaps and arbitrary reducing functions; out='samples' is that value on the cycle's samples, NaN elsewhere;
 * phase_align: for y = g(phase), column c equals g(bin centres) - exactly for g linear in phase,
   within an interpolation bound for smooth g - whatever the cycle's duration;
 * bin_by_phase: every bin [e_b, e_b+1) that contains samples holds their mean (empty bins NaN)."""
import contextlib

import numpy as np

from .. import gens
from ..harness import digest, quiet

MANIFEST = {
    'text': 'Held on every call executed: get_cycle_stat is compared with a direct per-label computation for seeded label vectors (1-8 cycles, -1 gaps anywhere, all -1) x value vectors x {mean, max, sum, len, first, ptp, median lambdas} x both output modes; phase_align is compared with g(bin centres) for linear and smooth g on monotone multi-cycle phases with cycle lengths 8..400, npoints 2..64 and interpolation kinds {linear, quadratic, cubic}, with implicit and explicit cycle vectors; bin_by_phase is compared with per-bin means for nbins 2..64 and custom edges. Sampling, not proof. A quarter of the shards run in a session that turns Deprecation/Future/UserWarnings into errors.',
    'note': 'Trusted: scipy.interpolate.interp1d, numpy. The interpolation bound for smooth g is 2*h^2*max|g\'\'| with h the largest phase step of the cycle (extrapolation to the first/last bin centre included); the largest ratio observed is reported.',
    'technique': 'direct-recomputation oracle on the real per-cycle routines, seeded random workload',
}
LOGGER_ON_ODD_SHARDS = True
BUDGET_S = {'quick': 60, 'thorough': 360}
NCASES = {'quick': 12000, 'thorough': 100000}
RULE = ('seeded random label vectors / monotone multi-cycle phases / phase samples; non-trivial = at least one cycle (or one '
        'non-empty bin); distinct by sha1 of the inputs')
ASSUMPTIONS = ['label vectors use consecutive labels 0..K-1 (what the library itself produces); a label without samples is not generated']

FUNCS = {
    'mean': np.mean, 'max': np.max, 'sum': np.sum, 'len': len,
    'first': lambda v: v[0], 'ptp': lambda v: v.max() - v.min(), 'median': lambda v: float(np.median(v)),
    'lastminusfirst': lambda v: v[-1] - v[0],
}


def check_stat(ctx, case):
    from emd import cycles as C
    labels, vals, fname, out = case['labels'], case['values'], case['func'], case['out']
    func = FUNCS[fname]
    K = labels.max() + 1 if len(labels) else 0
    ctx.case(digest(labels, vals, fname, out), K > 0)
    # (the caller's floating-point error policy is the caller's: some cases run with divide / invalid set to 'raise')
    def policy():
        return np.errstate(divide='raise', invalid='raise') if fname.startswith('fp:') else contextlib.nullcontext()
    with policy():
        want = np.array([func(np.array(vals[labels == k])) for k in range(K)], dtype=float)
    l0, v0 = labels.copy(), np.array(vals, copy=True)
    try:
        with quiet(), policy():
            got = C.get_cycle_stat(labels, vals, out=out, func=func)
    except Exception as e:
        ctx.violation('stat-exception:%s' % type(e).__name__, 'get_cycle_stat raised %s: %s' % (type(e).__name__, str(e)[:100]), case)
        return
    ctx.count('stat_calls:' + fname)
    if K and any(np.any(np.diff(np.where(labels == k)[0]) > 1) for k in range(K)):
        ctx.count('stat_calls_with_split_cycles')
    if K and any(not np.any(labels == k) for k in range(K)):
        ctx.count('stat_calls_with_unused_label')
    got = np.asarray(got, dtype=float)
    if out == 'samples':
        ws = np.full(len(labels), np.nan)
        for k in range(K):
            ws[labels == k] = want[k]
        got = got.reshape(-1)
        if got.shape != ws.shape or not np.array_equal(np.isnan(got), np.isnan(ws)) or not np.allclose(got[~np.isnan(ws)], ws[~np.isnan(ws)], rtol=1e-12, atol=0):
            ctx.violation('stat-projection', 'out="samples" is not the per-cycle value on the cycle\'s samples and NaN elsewhere '
                          '(labels %s)' % labels.tolist()[:20], case)
            return
        ctx.count('stat_projection_ok')
    else:
        if got.shape != want.shape or not np.allclose(got, want, rtol=1e-12, atol=0, equal_nan=True):
            bad = int(np.argmax(~np.isclose(got, want, rtol=1e-12, atol=0, equal_nan=True))) if got.shape == want.shape else -1
            ctx.violation('stat-value:' + fname, 'get_cycle_stat[%d] = %s, %s over the samples labelled %d gives %s (labels %s)'
                          % (bad, got[bad] if bad >= 0 else got.shape, fname, bad, want[bad] if bad >= 0 else want.shape, labels.tolist()[:20]), case)
            return
        ctx.count('stat_value_ok')
    if not (np.array_equal(l0, labels) and np.array_equal(v0, vals, equal_nan=True)):
        ctx.violation('stat-mutates-input', 'get_cycle_stat modified its inputs', case)


def monotone_phase(rng, ncycles, lmin=8, lmax=400, bigstep=False):
    parts, lens = [], []
    for _ in range(ncycles):
        L = int(np.exp(rng.uniform(np.log(lmin), np.log(lmax))))
        inc = rng.uniform(.5, 1.5, L + 1)
        if bigstep and rng.random() < .5:
            # a cycle (still strictly increasing inside (0, 2pi)) whose phase advances by 3.2 - 4.2 rad between two consecutive samples
            j = int(rng.integers(2, L - 1))
            inc[j] = inc.sum() * float(rng.uniform(1.1, 1.9))
        ph = np.cumsum(inc)[:-1] / inc.sum() * 2 * np.pi
        parts.append(ph)
        lens.append(L)
    return np.concatenate(parts), lens


G = {
    'linear': (lambda p, a, b: a * p + b, 0.0),
    'smooth': (lambda p, a, b: a * np.sin(p) + b * np.cos(2 * p), None),
}


def check_align(ctx, case):
    from emd import cycles as C
    ip, lens, gname, a, b, npoints, kind, explicit = (case[k] for k in ('ip', 'lens', 'g', 'a', 'b', 'npoints', 'interp_kind', 'explicit'))
    g = G[gname][0]
    x = g(ip, a, b)
    ctx.case(digest(ip, gname, a, b, npoints, kind, explicit), True)
    bounds = np.r_[0, np.cumsum(lens)]
    cyc = None
    if explicit:
        cyc = np.concatenate([np.full(L, k) for k, L in enumerate(lens)]).astype(int)
    try:
        with quiet():
            avg, centres = C.phase_align(ip.copy(), x.copy(), cycles=cyc, npoints=npoints, interp_kind=kind)
    except Exception as e:
        ctx.violation('align-exception:%s' % type(e).__name__, 'phase_align raised %s: %s' % (type(e).__name__, str(e)[:100]), case)
        return
    ctx.count('align_calls:' + kind)
    avg, centres_ret = np.array(avg, copy=True), centres
    centres = np.array(centres, copy=True)
    try:
        centres_ret *= 57.29577951308232     # the caller converts the grid it was handed to degrees, in place
    except ValueError:
        pass
    wantc = (np.arange(npoints) + .5) * 2 * np.pi / npoints
    if avg.shape != (npoints, len(lens)) or not np.allclose(centres, wantc, rtol=1e-12):
        ctx.violation('align-shape', 'phase_align returned %s / centres %s for %d cycles, npoints %d' % (avg.shape, np.round(centres[:3], 3), len(lens), npoints), case)
        return
    for c, L in enumerate(lens):
        seg = ip[bounds[c]:bounds[c + 1]]
        want = g(wantc, a, b)
        err = np.abs(avg[:, c] - want).max()
        if gname == 'linear':
            tol = 1e-9 * max(abs(a) * 2 * np.pi + abs(b), 1e-12)
            if err > tol:
                ctx.violation('align-linear', 'phase-aligned values of a quantity linear in phase differ from that function of the phase '
                              'grid by %.3g for a cycle of %d samples (npoints %d, %s)' % (err, L, npoints, kind), case)
                return
            ctx.count('align_linear_cycles_ok')
            ctx.add('cycle_lengths_decades', int(np.log2(L)))
        else:
            h = max(np.diff(seg).max(), seg[0] - wantc[0] if seg[0] > wantc[0] else 0, wantc[-1] - seg[-1] if wantc[-1] > seg[-1] else 0)
            g2 = abs(a) + 4 * abs(b)
            bound = 2 * h * h * g2 + 1e-9
            ctx.maxi('max_smooth_err_over_bound', err / bound)
            if err > bound:
                ctx.violation('align-smooth', 'phase-aligned smooth function of phase is off by %.3g > interpolation bound %.3g '
                              '(cycle of %d samples, npoints %d, %s)' % (err, bound, L, npoints, kind), case)
                return
            ctx.count('align_smooth_cycles_ok')


def check_align_labels(ctx, case):
    """Cycles given by the caller's own label vector (peak-to-peak or trough-to-trough cycles: the 2pi -> 0 wrap lies INSIDE each
    labelled cycle): every column is the interpolant through that cycle's own (phase, value) samples, taken in order of phase."""
    from emd import cycles as C
    from scipy import interpolate as _interp
    ip, lab, npoints, kind, a, b = (case[k] for k in ('ip', 'labels', 'npoints', 'interp_kind', 'a', 'b'))
    x = a * np.sin(ip) + b * np.cos(2 * ip)
    K = int(lab.max()) + 1
    ctx.case(digest(ip, lab, npoints, kind, a, b), K > 0)
    try:
        with quiet():
            avg, centres = C.phase_align(ip.copy(), x.copy(), cycles=lab.copy(), npoints=npoints, interp_kind=kind)
    except Exception as e:
        ctx.violation('align-exception:%s:own-labels' % type(e).__name__, 'phase_align with a label vector whose cycles contain the phase wrap raised %s: %s'
                      % (type(e).__name__, str(e)[:100]), case)
        return
    avg = np.asarray(avg, dtype=float)
    ctx.count('align_calls_with_own_labels')
    if avg.shape != (npoints, K):
        ctx.violation('align-shape', 'phase_align returned %s for %d labelled cycles, npoints %d' % (avg.shape, K, npoints), case)
        return
    for c in range(K):
        idx = np.where(lab == c)[0]
        o = np.argsort(ip[idx], kind='stable')
        want = _interp.interp1d(ip[idx][o], x[idx][o], kind=kind, bounds_error=False, fill_value='extrapolate')(np.asarray(centres, dtype=float))
        err = np.abs(avg[:, c] - want).max()
        if not err <= 1e-9 * (abs(a) + abs(b) + 1e-12):
            ctx.violation('align-own-labels', 'column %d is not the %s interpolant through the (phase, value) samples of the cycle labelled %d '
                          '(a cycle that contains the phase wrap): max diff %.3g' % (c, kind, c, err), case)
            return
        ctx.count('align_own_label_cycles_ok')


def check_bin(ctx, case):
    from emd import cycles as C
    ip, x, nbins, edges = case['ip'], case['x'], case['nbins'], case.get('edges')
    ctx.case(digest(ip, x, nbins, edges), True)
    try:
        with quiet():
            if edges is None:
                avg, var, centres = C.bin_by_phase(ip.copy(), x.copy(), nbins=nbins)
                e = np.linspace(0, 2 * np.pi, nbins + 1)
            else:
                avg, var, centres = C.bin_by_phase(ip.copy(), x.copy(), bin_edges=np.asarray(edges))
                e = np.asarray(edges)
    except Exception as ex:
        ctx.violation('bin-exception:%s' % type(ex).__name__, 'bin_by_phase raised %s: %s' % (type(ex).__name__, str(ex)[:100]), case)
        return
    ctx.count('bin_calls')
    centres_ret, centres = centres, np.array(centres, copy=True)
    try:
        if edges is None:
            centres_ret += 1000.0               # scribble on the returned grid: later calls must not see it
    except (ValueError, TypeError):
        pass
    nb = len(e) - 1
    avg = np.asarray(avg, dtype=float)
    if avg.shape[0] != nb or not np.allclose(centres, (e[:-1] + e[1:]) / 2, rtol=1e-12):
        ctx.violation('bin-shape', 'bin_by_phase returned %d bins / centres %s for %d bins' % (avg.shape[0], np.round(np.asarray(centres)[:3], 3), nb), case)
        return
    for b in range(nb):
        sel = (ip >= e[b]) & (ip < e[b + 1])
        if sel.any():
            want = x[sel].mean(axis=0)
            if not np.allclose(avg[b], want, rtol=1e-12, atol=1e-14, equal_nan=False):
                key = 'bin-last-empty' if (b == nb - 1 and np.all(np.isnan(avg[b]))) else 'bin-value'
                ctx.violation(key, 'phase bin %d of %d [%.3g, %.3g) contains %d samples with mean %s but holds %s'
                              % (b, nb, e[b], e[b + 1], int(sel.sum()), np.round(want, 5), np.round(avg[b], 5)), case)
                return
            ctx.count('bins_with_samples_ok')
            if b == nb - 1:
                ctx.count('last_bin_checked')
        elif not np.all(np.isnan(avg[b])):
            ctx.violation('bin-empty-not-nan', 'empty phase bin %d holds %s instead of being missing' % (b, avg[b]), case)
            return
        else:
            ctx.count('empty_bins_ok')


def _user(name, f):
    f.__name__ = name
    f.__qualname__ = name
    return f


# user-defined reducers that merely *share a name* with a numpy / builtin reducer
FUNCS.update({
    'user:amax': _user('amax', lambda v: float(np.max(np.abs(v))) if len(v) else 0.0),
    'user:max': _user('max', lambda v: float(np.sort(v)[-2]) if len(v) > 1 else float(v[0])),
    'user:min': _user('min', lambda v: float(np.min(v)) - 1.0),
    'user:len': _user('len', lambda v: 2 * len(v)),
    'user:mean': _user('mean', lambda v: float(np.mean(v[:1]))),
    'user:sum': _user('sum', lambda v: float(np.sum(v ** 2))),
    'user:median': _user('median', lambda v: float(v[-1])),
})



def _trimmed_range(v):
    v.sort()                      # (rearranges ITS argument: fine on the per-cycle copy a reducer is given)
    return float(v[-1] - v[0]) if len(v) < 4 else float(v[-2] - v[1])


def _demeaned_peak(v):
    v -= v.mean()
    return float(np.abs(v).max())


def _guarded_ratio(v):
    # a reducer written for a caller that runs with np.seterr(divide='raise', invalid='raise'): its fallback must be taken
    try:
        return float(np.float64(v.sum()) / np.float64((v * 0).sum()))
    except FloatingPointError:
        return -1.0


# reducers that modify the vector they are handed, and one whose result depends on the caller's floating-point error policy
FUNCS.update({'int:most_frequent': lambda v: float(np.bincount(v - v.min()).argmax() + v.min()), 'int:flags': lambda v: float(np.bitwise_or.reduce(v)),
              'int:wrapped_step': lambda v: float(v[-1] - v[0]),
              'mut:trimmed_range': _trimmed_range, 'mut:demeaned_peak': _demeaned_peak, 'fp:guarded_ratio': _guarded_ratio})

KINDS = {'stat': check_stat, 'align': check_align, 'bin': check_bin, 'align_labels': check_align_labels}


def gen_case(rng):
    r = rng.random()
    if r < .45:
        if rng.random() < .05:
            labels = np.full(int(rng.integers(1, 30)), -1)
        else:
            labels = gens.label_vector(rng, gaps=bool(rng.random() < .8), ncycles=(int(rng.integers(100, 400)) if rng.random() < .03 else None))
            if rng.random() < .25 and len(labels) > 4:
                # "any labelling": unlabelled samples *inside* a cycle (the cycle's label resumes afterwards)
                for _ in range(int(rng.integers(1, 4))):
                    i = int(rng.integers(1, len(labels) - 1))
                    if labels[i] >= 0 and (labels == labels[i]).sum() > 1:
                        labels[i] = -1
        vals = rng.standard_normal(len(labels)) if rng.random() < .7 else rng.integers(-5, 6, len(labels)).astype(float)
        fname = gens.pick(rng, sorted(FUNCS))
        if fname.startswith('int:'):
            # state codes / bit flags / raw counts: integer-typed values handed to a reducer that relies on integer arithmetic
            vals = rng.integers(0, 9, len(labels)).astype(gens.pick(rng, [np.int64, np.int16, np.uint8]))
        if rng.random() < .08 and labels.max() >= 2:
            # "any labelling": a label below the maximum that no sample carries (a cycle dropped without renumbering);
            # only with reducing functions that are defined on an empty vector
            labels = labels.copy()
            labels[labels == int(rng.integers(0, labels.max()))] = -1
            fname = gens.pick(rng, ['sum', 'len'])
        return {'kind': 'stat', 'labels': labels, 'values': vals, 'func': fname,
                'out': 'samples' if rng.random() < .35 else None}
    if r < .5:
        # the caller's own cycles (peak to peak, say): labels shifted by a fraction of a cycle against the phase wraps
        ip, lens = monotone_phase(rng, int(rng.integers(3, 8)), lmin=12, lmax=200)
        bounds = np.r_[0, np.cumsum(lens)]
        lab = np.full(len(ip), -1)
        frac = float(rng.uniform(.15, .85))
        for c in range(len(lens) - 1):
            s0 = bounds[c] + int(frac * lens[c])
            e0 = bounds[c + 1] + int(frac * lens[c + 1])
            lab[s0:e0] = c
        return {'kind': 'align_labels', 'ip': ip, 'labels': lab, 'npoints': int(gens.pick(rng, [2, 8, 24, 48])),
                'interp_kind': gens.pick(rng, ['linear', 'linear', 'quadratic', 'cubic', 'nearest']), 'a': float(rng.uniform(-3, 3)), 'b': float(rng.uniform(-2, 2))}
    if r < .75:
        explicit = bool(rng.random() < .5)
        # without an explicit cycle vector a wrap-free (single-cycle) phase legitimately has no cycles
        while True:
            ip, lens = monotone_phase(rng, int(rng.integers(1 if explicit else 2, 7)) if rng.random() > .03 else int(rng.integers(60, 150)), lmax=(400 if rng.random() > .03 else 60),
                                      bigstep=bool(explicit and rng.random() < .25))
            if explicit:
                break
            # implicit detection needs every cycle boundary to be a wrap of more than 1.5 pi
            from .C12 import ref_partition
            _, segs = ref_partition(ip, 1.5 * np.pi)
            if [e - s for s, e in segs] == list(lens):
                break
        gname = 'linear' if rng.random() < .5 else 'smooth'
        return {'kind': 'align', 'ip': ip, 'lens': lens, 'g': gname, 'a': float(rng.uniform(-3, 3)), 'b': float(rng.uniform(-2, 2)),
                'npoints': int(gens.pick(rng, [2, 3, 8, 24, 48, 64, int(rng.integers(2, 65))])),
                'interp_kind': gens.pick(rng, ['linear', 'quadratic', 'cubic']), 'explicit': explicit}
    n = int(rng.integers(5, 600))
    ip = rng.uniform(0, 2 * np.pi, n)
    if rng.random() < .3:
        ip[rng.integers(0, n, 3)] = gens.pick(rng, [0.0, np.pi, np.nextafter(2 * np.pi, 0)])
    x = rng.standard_normal(n) if rng.random() < .6 else rng.standard_normal((n, int(rng.integers(1, 4))))
    c = {'kind': 'bin', 'ip': ip, 'x': x, 'nbins': int(gens.pick(rng, [2, 3, 8, 24, 64, int(rng.integers(2, 65))]))}
    if rng.random() < .2:
        c['edges'] = np.sort(np.r_[0, rng.uniform(.1, 6.1, int(rng.integers(1, 10))), 2 * np.pi])
    return c


def huge_stat_case(rng):
    """One long recording with many cycles and a single non-finite value (value vectors are unrestricted)."""
    K = int(rng.integers(280, 320))
    labels = np.concatenate([np.r_[np.full(int(rng.integers(150, 260)), k), np.full(int(rng.integers(0, 4)), -1)] for k in range(K)]).astype(int)
    vals = rng.standard_normal(len(labels))
    vals[int(rng.integers(len(vals)))] = gens.pick(rng, [np.nan, np.inf])
    return {'kind': 'stat', 'labels': labels, 'values': vals, 'func': gens.pick(rng, ['mean', 'sum', 'max']), 'out': gens.pick(rng, [None, 'samples'])}


def run_shard(ctx):
    rng = ctx.rng
    n = NCASES[ctx.tier] // ctx.nshards
    seen = set()
    if ctx.shard % 4 == 0:
        check_stat(ctx, huge_stat_case(rng))
        ctx.count('very_long_recordings')
    for i in range(n):
        if ctx.out_of_time():
            break
        case = gen_case(rng)
        if rng.random() < .2:
            # same values, different presentation: strided views, narrower integer labels
            for k in ('labels', 'values', 'ip', 'x'):
                if k in case and isinstance(case[k], np.ndarray):
                    if k == 'labels' and rng.random() < .5:
                        case[k] = case[k].astype(np.int32)
                    # (np.median on a MaskedArray makes numpy itself warn: the reducers are the harness's, keep them quiet)
                    case[k], _ = gens.relayout(rng, case[k], 'strided', exclude=('masked',))
            ctx.count('strided_inputs')
        KINDS[case['kind']](ctx, case)
        if case['kind'] not in seen:
            seen.add(case['kind'])
            ctx.sample({k: (np.round(np.asarray(v).reshape(-1)[:8], 3) if isinstance(v, np.ndarray) else v) for k, v in case.items()})


def finalize(agg, tier):
    c = agg['counters']
    r = []
    for k, need in [('stat_value_ok', 300), ('stat_projection_ok', 100), ('align_linear_cycles_ok', 300), ('align_smooth_cycles_ok', 300),
                    ('bins_with_samples_ok', 2000), ('last_bin_checked', 100), ('empty_bins_ok', 100)]:
        if c.get(k, 0) < need:
            r.append('%s: %d < %d' % (k, c.get(k, 0), need))
    return r


def replay(ctx, case):
    if 'edges' in case and case['edges'] is not None:
        case['edges'] = np.asarray(case['edges'], float)
    KINDS[case['kind']](ctx, case)
