"""C05 - extrema are exact and envelopes interpolate them on the sample grid.

Oracles: (a) own strict-inequality extrema search (+ closed-form parabola vertex) and own
padding rule compared with get_padded_extrema; (b) the selected interpolant rebuilt from the
extrema that interp_envelope itself returns, evaluated at the integer sample times 0..N-1."""
import itertools

import numpy as np

from .. import gens
from ..harness import digest, watchdog, WatchdogTimeout, MonitorAbort
from ..monitors import PadStepMonitor
from .. import refmodels as R

MANIFEST = {
    'text': 'Held on every call executed: get_padded_extrema and interp_envelope are run on EVERY sequence of length 3..7 (quick) / 3..9 (thorough) over a 3-level alphabet x pad widths 0..5 x parabolic on/off x {peaks, troughs, abs_peaks} x {splrep, pchip, mono_pchip} x {upper, lower, combined}, plus seeded random signals with ties up to 1000 samples; detected extrema must equal an independent strict-inequality search, padding must be the documented odd reflection / edge repetition with strictly increasing locations covering both ends, and every envelope value must equal the interpolant through the returned extrema at that sample\'s integer time (1e-9 relative). Exhaustive at the stated bound, sampling beyond. A quarter of the shards run in a session that turns Deprecation/Future/UserWarnings into errors.',
    'note': 'Trusted: scipy splrep/splev/PchipInterpolator and np.pad (the reference deliberately uses the same primitives so a scipy upgrade cannot raise a false alarm). pad_width=0 is judged for get_padded_extrema only (interp_envelope documents a ValueError when the extrema do not span the record).',
    'technique': 'reference-model monitor on the real extrema/envelope stages, exhaustive small-scope enumeration + seeded random',
}
LOGGER_ON_ODD_SHARDS = True
SESSION_NOISE = True      # every shard starts after unrelated session activity (harness.session_noise)
BUDGET_S = {'quick': 60, 'thorough': 420}
MAXLEN = {'quick': 7, 'thorough': 9}
NRANDOM = {'quick': 1500, 'thorough': 20000}
EXHAUSTIVE = {'quick': True, 'thorough': True}
EXHAUSTIVE_SCOPE = {
    'quick': 'every sequence of length 3..7 over {-1,0,1} x pad 0..5 x parabolic x 3 extrema modes; envelopes: pad 1..5 x 3 interpolants x 3 modes x parabolic',
    'thorough': 'every sequence of length 3..9 over {-1,0,1} x pad 0..5 x parabolic x 3 extrema modes; envelopes: pad 1..5 x 3 interpolants x 3 modes x parabolic',
}
RULE = ('exhaustive enumeration of all sequences up to the stated length over the alphabet {-1,0,1} (ties and plateaus '
        'included) crossed with every option combination, plus seeded random signals (noise, integer-valued, walks, '
        'tones) of 20..1000 samples; non-trivial = the (signal, mode) has at least two extrema so padding/envelope '
        'code runs; distinct by (sequence, options)')
ASSUMPTIONS = ['non-default np.pad options are checked against np.pad itself with the same options (structure + values)']

TOL = 1e-9
MODES = ['peaks', 'troughs', 'abs_peaks']
ENVMODES = ['upper', 'lower', 'combined']
INTERPS = ['splrep', 'pchip', 'mono_pchip']


def check_extrema_bigint(ctx, rng):
    """Integer recordings whose values exceed 2**53 (nanosecond time stamps, 64-bit counters): neighbouring samples differ by less
    than the spacing of float64 there, integer comparison is still exact - the strict extrema are those of the integers."""
    from emd import sift as S
    n = int(rng.integers(30, 400))
    base = int(gens.pick(rng, [2 ** 60, -2 ** 60, 2 ** 55 + 12345, 18 * 10 ** 17]))
    wig = np.round(40 * np.sin(2 * np.pi * np.arange(n) / float(rng.uniform(5, 12))) + rng.integers(-6, 7, n)).astype(np.int64)
    for mode in MODES:
        _bigint_mode(ctx, base, wig, mode)
    # ... and recordings that use the full range of a narrow signed type (neighbouring samples further apart than the type's maximum)
    dt = gens.pick(rng, [np.int8, np.int16])
    top = np.iinfo(dt).max
    xi = (np.round(.97 * top * np.sin(2 * np.pi * np.arange(n) / 2.37 + float(rng.uniform(0, 6)))) + rng.integers(-3, 4, n)).clip(-top, top).astype(dt)
    for mode in ('peaks', 'troughs'):
        y = xi.astype(np.int64) * (1 if mode == 'peaks' else -1)
        rl = np.array([i for i in range(1, n - 1) if y[i] > y[i - 1] and y[i] > y[i + 1]], dtype=int)
        case = {'kind': 'fullscale', 'x': xi, 'dtype': np.dtype(dt).name, 'mode': mode}
        ctx.case(digest(xi, mode, 'fullscale'), len(rl) > 1)
        ctx.count('full_scale_integer_recordings_checked')
        try:
            locs, mags = S.get_padded_extrema(xi.copy(), pad_width=0, mode=mode)
        except Exception as e:
            ctx.violation('extrema-exception:%s' % type(e).__name__, 'get_padded_extrema raised %s on a full-scale %s recording' % (type(e).__name__, np.dtype(dt).name), case)
            continue
        if len(rl) > 1 and (locs is None or not np.array_equal(np.asarray(locs), rl)):
            ctx.violation('extrema-interior:full-scale-integers', 'the %s of a full-scale %s recording are not its strict local extrema: %s found, %d exist'
                          % (mode, np.dtype(dt).name, 'none' if locs is None else len(locs), len(rl)), case)


def _bigint_mode(ctx, base, wig, mode):
    from emd import sift as S
    wig = np.asarray(wig, dtype=np.int64)
    xi = (np.int64(base) + wig).astype(np.int64)
    n = len(xi)
    if True:
        y = xi if mode == 'peaks' else (-xi if mode == 'troughs' else np.abs(xi))
        rl = np.array([i for i in range(1, n - 1) if y[i] > y[i - 1] and y[i] > y[i + 1]], dtype=int)
        case = {'kind': 'bigint', 'base': base, 'wiggle': wig, 'mode': mode}
        ctx.case(digest(xi, mode, 'bigint'), len(rl) > 1)
        ctx.count('huge_integer_recordings_checked')
        try:
            locs, mags = S.get_padded_extrema(xi.copy(), pad_width=0, mode=mode)
        except Exception as e:
            ctx.violation('extrema-exception:%s' % type(e).__name__, 'get_padded_extrema raised %s: %s on an int64 recording' % (type(e).__name__, str(e)[:100]), case)
            return
        if len(rl) <= 1:
            return
        if locs is None or not np.array_equal(np.asarray(locs), rl):
            ctx.violation('extrema-interior:huge-integers', 'the %s of an int64 recording around %g are not its strict local extrema: %s found, %d exist'
                          % (mode, float(base), 'none' if locs is None else len(locs), len(rl)), case)


def check_extrema(ctx, x, pad, mode, parabolic, mag_pad_opts=None, tag='enum'):
    from emd import sift as S
    xin, x = x, np.asarray(x, dtype=float)
    pad_arg, pad = pad, int(pad)        # (the library gets the width in the form it was given, the reference computes with a plain int)
    case = {'kind': 'extrema', 'x': x, 'pad_width': pad, 'mode': mode, 'parabolic': parabolic, 'mag_pad_opts': mag_pad_opts}
    n = len(x)
    rl, rm = R.detect_extrema(x, mode, parabolic)
    kw = {}
    if mag_pad_opts:
        kw['mag_pad_opts'] = dict(mag_pad_opts)
    try:
        PADMON.arm(n)
        locs, mags = S.get_padded_extrema(xin if xin.base is not None else xin.copy(), pad_width=pad_arg, mode=mode, parabolic_extrema=parabolic, **kw)
    except MonitorAbort as e:
        ctx.case(('e', x.tobytes(), pad, mode, parabolic), True)
        ctx.violation('padding-unbounded', 'get_padded_extrema did not finish padding within its logical step bound: %s' % e, case)
        return
    except Exception as e:
        ctx.case(('e', x.tobytes(), pad, mode, parabolic), len(rl) > 1)
        ctx.violation('extrema-exception:%s' % type(e).__name__, 'get_padded_extrema raised %s: %s' % (type(e).__name__, str(e)[:100]), case)
        return
    nontriv = len(rl) > 1
    ctx.case(digest(x, pad, mode, parabolic, mag_pad_opts, 'x'), nontriv)
    ctx.count('extrema_checks')
    if not nontriv:
        if locs is not None:
            ctx.violation('extrema-not-none', 'signal has %d %s but get_padded_extrema returned %d locations' % (len(rl), mode, len(locs)), case)
        else:
            ctx.count('too_few_extrema')
        return
    if locs is None:
        ctx.violation('extrema-missed', '%d strict %s exist but get_padded_extrema returned None' % (len(rl), mode), case)
        return
    locs = np.asarray(locs, dtype=float)
    mags = np.asarray(mags, dtype=float)
    w = min(pad, len(rl))
    if len(locs) != len(mags):
        ctx.violation('extrema-len', 'locations and magnitudes differ in length', case)
        return
    # interior block: the detected extrema, unmodified, contiguous
    k = len(rl)
    extra = len(locs) - k
    if extra < 0 or extra % 2:
        ctx.violation('extrema-count', 'returned %d locations for %d detected extrema (pad %d)' % (len(locs), k, pad), case)
        return
    off = extra // 2
    scale = max(np.abs(x).max(), 1.0)
    tol_l = 0 if not parabolic else 1e-9
    if not (np.allclose(locs[off:off + k], rl, rtol=0, atol=tol_l) and np.allclose(mags[off:off + k], rm, rtol=0, atol=(0 if not parabolic else 1e-9 * scale))):
        ctx.violation('extrema-interior' + ('-parabolic' if parabolic else ''),
                      'detected %s are not the strict local extrema of the signal (or were altered by padding): got locs %s, expected %s'
                      % (mode, np.round(locs[off:off + k], 4).tolist()[:8], np.round(rl, 4).tolist()[:8]), case)
        return
    if np.any(np.diff(locs) <= 0):
        ctx.violation('extrema-order', 'padded locations are not strictly increasing: %s' % np.round(locs, 3).tolist()[:12], case)
        return
    if w == 0:
        if extra != 0:
            ctx.violation('extrema-pad0', 'pad_width=0 but %d extrema were added' % extra, case)
        else:
            ctx.count('pad0_ok')
        return
    if not (locs[0] < 0 and locs[-1] >= n):
        ctx.violation('extrema-cover', 'padded extrema do not extend past both ends: first %.3g, last %.3g, n=%d' % (locs[0], locs[-1], n), case)
        return
    # exact padding rule
    if mag_pad_opts:
        L = np.pad(rl, w, 'reflect', reflect_type='odd')
        mo = dict(mag_pad_opts)
        mm = mo.pop('mode')
        M = np.pad(rm, w, mm, **mo)
        while max(L) < n or min(L) >= 0:
            L = np.pad(L, w, 'reflect', reflect_type='odd')
            M = np.pad(M, w, mm, **mo)
    else:
        L, M = R.pad_default(rl, rm, pad, n)
        if w <= k - 1 and len(locs) >= k + 2 * w:
            # first padding round, fully independent formula
            man = R.manual_odd_reflect(rl, w)
            c = (len(locs) - len(man)) // 2
            if not np.allclose(locs[c:c + len(man)], man, rtol=0, atol=1e-9):
                ctx.violation('extrema-reflection', 'padded locations are not the odd reflection of the detected ones', case)
                return
            ctx.count('manual_reflection_checked')
    if parabolic and len(L) != len(locs):
        # refined locations are floats: a mirrored extremum can land on 0 (or on n) to within rounding, and whether another
        # padding round is needed is then decided by the last bit - a guard-band case, not a violation
        allv = np.r_[np.asarray(L, float), locs]
        if np.min(np.abs(allv)) < 1e-9 or np.min(np.abs(allv - n)) < 1e-9:
            ctx.count('padding_round_decided_by_rounding')
            return
    # (refined locations agree with the reference to 1e-9 in the interior - checked above; every padding round mirrors them about
    # an edge location, 2*edge - loc, so the admissible difference grows by 2e-9 per round)
    tol_pad = 1e-9 * (3 + 2 * (off // max(w, 1))) if parabolic else 1e-9
    if len(L) != len(locs) or not np.allclose(L, locs, rtol=0, atol=tol_pad) or not np.allclose(M, mags, rtol=0, atol=1e-9 * scale):
        ctx.violation('extrema-padding', 'padded extrema differ from the documented padding rule: got %s / %s, expected %s / %s'
                      % (np.round(locs, 3).tolist()[:10], np.round(mags, 3).tolist()[:10], np.round(L, 3).tolist()[:10], np.round(M, 3).tolist()[:10]), case)
        return
    ctx.count('padding_exact')
    if parabolic:
        ctx.count('parabolic_extrema_checked')


def check_envelope(ctx, x, pad, mode, interp, parabolic):
    from emd import sift as S
    xin, x = x, np.asarray(x, dtype=float)
    pad_arg, pad = pad, int(pad)
    case = {'kind': 'envelope', 'x': x, 'pad_width': pad, 'mode': mode, 'interp_method': interp, 'parabolic': parabolic}
    n = len(x)
    rl, rm = R.detect_extrema(x, R.MODE_MAP[mode], parabolic)
    nontriv = len(rl) > 1
    ctx.case(digest(x, pad, mode, interp, parabolic, 'e'), nontriv)
    xo = {'pad_width': pad_arg, 'parabolic_extrema': parabolic}
    try:
        PADMON.arm(n)
        r = S.interp_envelope(xin if xin.base is not None else xin.copy(), mode=mode, interp_method=interp, extrema_opts=xo, ret_extrema=True)
    except MonitorAbort as e:
        ctx.violation('padding-unbounded', 'interp_envelope did not finish padding within its logical step bound: %s' % e, case)
        return
    except ValueError as e:
        if pad == 0:
            ctx.count('pad0_valueerror_accepted')
            return
        ctx.violation('envelope-exception:ValueError', 'interp_envelope raised ValueError: %s' % str(e)[:100], case)
        return
    except Exception as e:
        ctx.violation('envelope-exception:%s' % type(e).__name__, 'interp_envelope raised %s: %s' % (type(e).__name__, str(e)[:100]), case)
        return
    ctx.count('envelope_checks')
    if not nontriv:
        if r is not None:
            ctx.violation('envelope-not-none', 'fewer than two extrema but an envelope was returned', case)
        return
    if r is None:
        ctx.violation('envelope-none', '%d extrema exist but interp_envelope returned None' % len(rl), case)
        return
    env, (locs, pks) = r
    env = np.asarray(env, dtype=float)
    if env.shape != (n,):
        ctx.violation('envelope-length', 'envelope has shape %s for %d samples' % (env.shape, n), case)
        return
    ref = R.ref_envelope_from_extrema(np.asarray(locs, float), np.asarray(pks, float), n, interp)
    scale = max(np.abs(pks).max(), 1e-300)
    err = np.abs(env - ref).max() / scale
    ctx.maxi('max_rel_envelope_err', err if err <= TOL else 0)
    if not np.all(np.isfinite(env)) or err > TOL:
        ctx.violation('envelope-offgrid' + ('-parabolic' if parabolic else ''),
                      'envelope value at sample i is not the %s interpolant through the returned extrema evaluated at t=i: '
                      'max rel err %.3g (first returned location %.4g)' % (interp, err, locs[0]), case)
        return
    # the extrema it interpolated must be the true ones
    k = len(rl)
    off = (len(locs) - k) // 2
    if len(locs) < k or not np.allclose(np.asarray(locs)[off:off + k], rl, rtol=0, atol=1e-9):
        ctx.violation('envelope-extrema', 'envelope was built from locations that are not the strict extrema', case)
        return
    if not parabolic:
        sig = {'upper': x, 'lower': x, 'combined': np.abs(x)}[mode]
        idx = rl.astype(int)
        if np.abs(env[idx] - sig[idx]).max() > TOL * scale:
            ctx.violation('envelope-through-extrema', 'envelope does not pass through the unrefined extrema', case)
            return
        ctx.count('passes_through_extrema')
    # the default call - without the extrema - is the one the sift makes: it must be the same envelope
    try:
        PADMON.arm(n)
        plain = S.interp_envelope(xin if xin.base is not None else xin.copy(), mode=mode, interp_method=interp, extrema_opts=xo)
    except Exception as e:
        ctx.violation('envelope-exception:%s' % type(e).__name__, 'interp_envelope (default call, extrema not returned) raised %s: %s' % (type(e).__name__, str(e)[:100]), case)
        return
    ctx.count('default_call_envelopes_compared')
    if plain is None or np.asarray(plain).shape != env.shape or not np.array_equal(np.asarray(plain, dtype=float), env):
        ctx.violation('envelope-differs-without-ret_extrema', 'interp_envelope(...) and interp_envelope(..., ret_extrema=True)[0] are different envelopes (max diff %s)'
                      % ('n/a' if plain is None or np.asarray(plain).shape != env.shape else '%.3g' % np.abs(np.asarray(plain, dtype=float) - env).max()), case)
        return
    ctx.count('envelope_on_grid' + ('_parabolic' if parabolic else ''))


PADMON = None


def run_shard(ctx):
    global PADMON
    from emd import sift as S
    with PadStepMonitor(S) as PADMON:
        _run_shard(ctx)
    ctx.maxi('max_np_pad_calls_in_one_call', PADMON.max_calls)


def _run_shard(ctx):
    rng = ctx.rng
    # ---- exhaustive part
    idx = 0
    for L in range(3, MAXLEN[ctx.tier] + 1):
        for seq in itertools.product((-1.0, 0.0, 1.0), repeat=L):
            idx += 1
            if idx % ctx.nshards != ctx.shard:
                continue
            x = np.array(seq)
            ctx.count('sequences')
            for parabolic in (False, True):
                for mode in MODES:
                    for pad in range(0, 6):
                        check_extrema(ctx, x, pad, mode, parabolic)
                for emode in ENVMODES:
                    if len(R.detect_extrema(x, R.MODE_MAP[emode], False)[0]) <= 1:
                        check_envelope(ctx, x, 2, emode, 'splrep', parabolic)
                        continue
                    for pad in range(1, 6):
                        for interp in INTERPS:
                            check_envelope(ctx, x, pad, emode, interp, parabolic)
            if idx < 40 and ctx.shard == 0:
                ctx.sample({'sequence': list(seq), 'crossed_with': 'pad 0..5 x parabolic x modes x interps'})
    ctx.count('exhaustive_done')
    # ---- random part
    n = NRANDOM[ctx.tier] // ctx.nshards
    for _ in range(6):
        check_extrema_bigint(ctx, rng)
    for i in range(n):
        if ctx.out_of_time():
            break
        kind = gens.pick(rng, ['noise', 'int', 'int', 'walk', 'tones', 'periodic', 'palindrome', 'steps', 'spikes', 'transient', 'transient'])
        N = int(gens.pick(rng, [20, 50, 200, 1000, 1000, 6000]))
        x = gens.signal(rng, kind, N)
        if rng.random() < .2:
            x = x * float(gens.pick(rng, [1e-9, 1e-6, 1e6, 1e9]))     # the same shape at another amplitude
            ctx.count('rescaled_signals')
        xp, xcanon, tag = gens.present(rng, x, dtypes=('int',), p_plain=.7)
        x = xp          # (check_* compute their reference from the float64 values of whatever is passed)
        ctx.count('presentation:' + tag)
        pad = int(rng.integers(0, 6))
        if rng.random() < .2:
            pad = gens.pick(rng, [np.int8, np.int16, np.int64])(pad)       # the width as a numpy integer (what a configuration array yields)
            ctx.count('pad_width_passed_as_numpy_integer')
        parabolic = bool(rng.random() < .5)
        mode = gens.pick(rng, MODES)
        mpo = gens.pick(rng, [{'mode': 'mean', 'stat_length': 2}, {'mode': 'maximum', 'stat_length': 2}, {'mode': 'minimum', 'stat_length': 3},
                              {'mode': 'constant', 'constant_values': 0.7}, {'mode': 'linear_ramp', 'end_values': -0.4}]) if rng.random() < .3 else None
        if np.asarray(x).dtype.kind in 'iu':
            mpo = None    # np.pad's 'mean' rounds on integer arrays: numpy's business, not the property's
        ctx.count('random_signals')
        check_extrema(ctx, x, pad, mode, parabolic, mpo, tag='rand')
        check_envelope(ctx, x, max(pad, 1), gens.pick(rng, ENVMODES), gens.pick(rng, INTERPS), parabolic)
        if i == 0:
            ctx.sample({'family': kind, 'n': N, 'pad_width': pad, 'parabolic': parabolic, 'mode': mode, 'x_head': np.round(x[:6], 3)})


def finalize(agg, tier):
    c = agg['counters']
    r = []
    if c.get('exhaustive_done', 0) < 1:
        r.append('exhaustive enumeration did not finish')
    want = sum(3 ** L for L in range(3, MAXLEN[tier] + 1))
    if c.get('sequences', 0) != want:
        r.append('enumerated %d sequences, expected %d' % (c.get('sequences', 0), want))
    for k in ['envelope_on_grid', 'envelope_on_grid_parabolic', 'padding_exact', 'parabolic_extrema_checked']:
        if c.get(k, 0) < 1000:
            r.append('%s observed only %d times' % (k, c.get(k, 0)))
    return r


def replay(ctx, case):
    global PADMON
    from emd import sift as S
    if case['kind'] == 'bigint':
        return _bigint_mode(ctx, case['base'], case['wiggle'], case['mode'])
    if case['kind'] == 'fullscale':
        xi = np.asarray(case['x']).astype(case['dtype'])
        y = xi.astype(np.int64) * (1 if case['mode'] == 'peaks' else -1)
        rl = np.array([i for i in range(1, len(xi) - 1) if y[i] > y[i - 1] and y[i] > y[i + 1]], dtype=int)
        locs, mags = S.get_padded_extrema(xi.copy(), pad_width=0, mode=case['mode'])
        if len(rl) > 1 and (locs is None or not np.array_equal(np.asarray(locs), rl)):
            ctx.violation('extrema-interior:full-scale-integers', 'replayed', case)
        return
    x = np.asarray(case['x'], dtype=float)
    with PadStepMonitor(S) as PADMON:
        _replay(ctx, case, x)


def _replay(ctx, case, x):
    if case['kind'] == 'extrema':
        check_extrema(ctx, x, case['pad_width'], case['mode'], case['parabolic'], case.get('mag_pad_opts'))
    else:
        check_envelope(ctx, x, case['pad_width'], case['mode'], case['interp_method'], case['parabolic'])
