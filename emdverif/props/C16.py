"""C16 - sample, cycle, subset and chain index maps are mutually consistent.

Oracle: set-theoretic definitions over (cycle label vector, boolean selection of cycles):
subset = selected cycles numbered in order, chains = maximal runs of consecutive selected cycles.
All 12 map_* functions must be total on existing indices and agree with the definitions, the
round trips must contain the original sample, forward maps return 'none' (None, or -1 for the
vector look-ups) exactly for unlabelled samples / unselected cycles, and every project_* must put
each value on exactly the items mapping to it and NaN elsewhere."""
import itertools

import numpy as np

from .. import gens
from ..harness import digest

MANIFEST = {
    'text': 'Held on every structure enumerated: for EVERY boolean selection vector of length 1..10 (quick) / 1..12 (thorough) combined with three cycle-length / gap layouts (no gaps, interior -1 gaps, leading+trailing gaps) all 12 emd._cycles_support.map_* functions are called on every existing sample, cycle, subset-cycle and chain and all 6 project_* functions on distinct per-item values, and compared with set-theoretic definitions; seeded random larger instances (up to 40 cycles) follow. Exhaustive at the stated bound, sampling beyond. Schedules: the same deterministic calls made from 4-5 threads of one interpreter at once (thread switch every 1-10 microseconds) must reproduce the results obtained alone. A quarter of the shards run in a session that turns Deprecation/Future/UserWarnings into errors.',
    'note': 'Trusted: numpy. Subset and chain vectors are built with the library\'s own get_subset_vector / get_chain_vector and compared with the reference construction first. The two *_augmented maps need a phase and belong to C15.',
    'technique': 'set-theoretic reference model vs the real index maps, exhaustive enumeration of selection structures + seeded random',
}
LOGGER_ON_ODD_SHARDS = True
BUDGET_S = {'quick': 60, 'thorough': 360}
MAXLEN = {'quick': 10, 'thorough': 12}
NRANDOM = {'quick': 300, 'thorough': 4000}
EXHAUSTIVE = {'quick': True, 'thorough': True}
EXHAUSTIVE_SCOPE = {'quick': 'every boolean selection of length 1..10 x 3 cycle-length/gap layouts', 'thorough': 'every boolean selection of length 1..12 x 3 cycle-length/gap layouts'}
RULE = ('exhaustive enumeration of selection vectors x layouts, then seeded random instances; non-trivial = at least one selected '
        'cycle; distinct by (selection, layout)')
ASSUMPTIONS = ['cycle label vectors are 1-d with consecutive labels 0..K-1 and optional -1 gaps']


def layouts(K):
    """Three cycle label vectors for K cycles."""
    a = np.repeat(np.arange(K), 2)
    parts = []
    for k in range(K):
        parts.append(np.full(1 + k % 2, k))
        if k % 3 == 1:
            parts.append(np.full(1 + (k % 2), -1))
    b = np.concatenate(parts)
    c = np.concatenate([np.full(2, -1), np.arange(K), np.full(1, -1)])
    return [('nogap', a), ('gaps', b), ('edges', c)]


def reference(cv, sel):
    K = len(sel)
    sv = np.full(K, -1, dtype=int)
    sv[np.where(sel)[0]] = np.arange(int(np.sum(sel)))
    chains = []
    prev = None
    for c in np.where(sel)[0]:
        if prev is not None and c == prev + 1:
            chains[-1].append(int(c))
        else:
            chains.append([int(c)])
        prev = c
    chv = np.array([ci for ci, ch in enumerate(chains) for _ in ch], dtype=int)
    return sv, chv, chains


def is_none(v):
    if v is None:
        return True
    v = np.asarray(v)
    return v.size == 1 and int(v.reshape(-1)[0]) == -1


def as_int(v):
    return int(np.asarray(v).reshape(-1)[0])


def check(ctx, cv, sel, case, tag):
    from emd import _cycles_support as CS
    from emd import cycles as C
    K = len(sel)
    n = len(cv)
    sv, chv, chains = reference(cv, sel)
    if case.get('narrow'):
        # the same index vectors stored in the narrowest integer type that holds their labels (here: exactly filled)
        sv, chv = sv.astype(case['narrow']), chv.astype(case['narrow'])
        ctx.count('structures_with_exactly_filled_narrow_index_types')
    ctx.case(digest(cv, sel), bool(np.any(sel)))
    ctx.count('structures:' + tag)
    V = ctx.violation
    got_sv = np.asarray(C.get_subset_vector(sel.copy()))
    if ctx.evaluations % 5 == 0:
        # the same selection handed over as a list / tuple of Python bools, or as 0/1 integers
        for form, v in (('list', [bool(b) for b in sel]), ('tuple', tuple(bool(b) for b in sel)), ('int array', sel.astype(int))):
            alt = np.asarray(C.get_subset_vector(v))
            ctx.count('selection_passed_as:' + form)
            if not np.array_equal(alt, sv):
                V('subset-vector:' + form.replace(' ', '-'), 'get_subset_vector(%s as %s) = %s, expected %s' % (sel.astype(int).tolist(), form, alt.tolist(), sv.tolist()), case)
                return
    if not np.array_equal(got_sv, sv):
        V('subset-vector', 'get_subset_vector(%s) = %s, expected %s' % (sel.astype(int).tolist(), got_sv.tolist(), sv.tolist()), case)
        return
    got_chv = np.asarray(C.get_chain_vector(sv.copy()))
    if not np.array_equal(got_chv, chv):
        V('chain-vector', 'get_chain_vector(%s) = %s, expected %s' % (sv.tolist(), got_chv.tolist(), chv.tolist()), case)
        return
    nsub, nch = int(np.sum(sel)), len(chains)
    samp_of = lambda c: np.where(cv == c)[0]

    def call(name, *a):
        try:
            return getattr(CS, name)(*a)
        except Exception as e:
            raise RuntimeError('%s%s raised %s: %s' % (name, tuple(x if np.isscalar(x) else '..' for x in a), type(e).__name__, str(e)[:80]))
    try:
        # ---- cycles
        for c in range(K):
            if not np.array_equal(np.asarray(call('map_cycle_to_samples', cv, c)), samp_of(c)):
                V('map_cycle_to_samples', 'wrong samples for cycle %d' % c, case); return
            r = call('map_cycle_to_subset', sv, c)
            if sel[c]:
                if is_none(r) or as_int(r) != sv[c]:
                    V('map_cycle_to_subset', 'cycle %d is subset cycle %d, got %r' % (c, sv[c], r), case); return
            elif not is_none(r):
                V('map_cycle_to_subset', 'unselected cycle %d mapped to %r' % (c, r), case); return
            r = call('map_cycle_to_chain', chv, sv, c)
            if sel[c]:
                if is_none(r) or as_int(r) != chv[sv[c]]:
                    V('map_cycle_to_chain', 'cycle %d is in chain %d, got %r' % (c, chv[sv[c]], r), case); return
            elif not is_none(r):
                V('map_cycle_to_chain', 'unselected cycle %d mapped to chain %r' % (c, r), case); return
        # ---- samples
        for i in range(n):
            r = call('map_sample_to_cycle', cv, i)
            if (cv[i] < 0) != is_none(r) or (cv[i] >= 0 and as_int(r) != cv[i]):
                V('map_sample_to_cycle', 'sample %d has label %d, got %r' % (i, cv[i], r), case); return
            if cv[i] >= 0 and i not in call('map_cycle_to_samples', cv, as_int(r)):
                V('roundtrip-sample-cycle', 'sample %d not in the samples of its own cycle' % i, case); return
            want_s = sv[cv[i]] if (cv[i] >= 0 and sel[cv[i]]) else None
            r = call('map_sample_to_subset', sv, cv, i)
            if (want_s is None) != is_none(r) or (want_s is not None and as_int(r) != want_s):
                key = 'map_sample_to_subset' + (':unlabelled-sample' if cv[i] < 0 else '')
                V(key, 'sample %d (label %d) belongs to subset cycle %r, got %r' % (i, cv[i], want_s, r), case); return
            if want_s is not None and i not in np.asarray(call('map_subset_to_sample', sv, cv, as_int(r))):
                V('roundtrip-sample-subset', 'sample %d not in the samples of its own subset cycle' % i, case); return
            want_c = chv[want_s] if want_s is not None else None
            r = call('map_sample_to_chain', chv, sv, cv, i)
            if (want_c is None) != is_none(r) or (want_c is not None and as_int(r) != want_c):
                key = 'map_sample_to_chain' + (':unlabelled-sample' if cv[i] < 0 else '')
                V(key, 'sample %d (label %d) belongs to chain %r, got %r' % (i, cv[i], want_c, r), case); return
            if want_c is not None and i not in np.asarray(call('map_chain_to_samples', chv, sv, cv, as_int(r))):
                V('roundtrip-sample-chain', 'sample %d not in the samples of its own chain' % i, case); return
        # ---- subset cycles
        for s in range(nsub):
            c = int(np.where(sel)[0][s])
            r = np.asarray(call('map_subset_to_cycle', sv, s)).reshape(-1)
            if r.tolist() != [c]:
                V('map_subset_to_cycle', 'subset cycle %d is cycle %d, got %s' % (s, c, r.tolist()), case); return
            if not np.array_equal(np.asarray(call('map_subset_to_sample', sv, cv, s)).reshape(-1), samp_of(c)):
                V('map_subset_to_sample', 'wrong samples for subset cycle %d' % s, case); return
            r = call('map_subset_to_chain', chv, s)
            if is_none(r) or as_int(r) != chv[s]:
                V('map_subset_to_chain', 'subset cycle %d is in chain %d, got %r' % (s, chv[s], r), case); return
        # ---- chains
        for ci, ch in enumerate(chains):
            r = np.asarray(call('map_chain_to_subset', chv, ci)).reshape(-1)
            if r.tolist() != [int(sv[c]) for c in ch]:
                V('map_chain_to_subset', 'chain %d holds subset cycles %s, got %s' % (ci, [int(sv[c]) for c in ch], r.tolist()), case); return
            r = np.asarray(call('map_chain_to_cycle', chv, sv, ci)).reshape(-1)
            if r.tolist() != ch:
                V('map_chain_to_cycle', 'chain %d holds cycles %s, got %s' % (ci, ch, r.tolist()), case); return
            r = np.asarray(call('map_chain_to_samples', chv, sv, cv, ci)).reshape(-1)
            want = np.concatenate([samp_of(c) for c in ch])
            if not np.array_equal(r, want):
                V('map_chain_to_samples', 'wrong samples for chain %d' % ci, case); return
            if len(ch) == 1:
                ctx.count('single_cycle_chains')
        # ---- projections (distinct values per item so misplacement shows)
        cyc_vals = 10.0 + np.arange(K)
        sub_vals = 100.0 + np.arange(nsub)
        ch_vals = 1000.0 + np.arange(nch)

        def same(a, b):
            a = np.asarray(a, dtype=float).reshape(-1)
            return a.shape == b.shape and np.array_equal(np.isnan(a), np.isnan(b)) and np.array_equal(a[~np.isnan(b)], b[~np.isnan(b)])
        want = np.array([cyc_vals[l] if l >= 0 else np.nan for l in cv])
        if not same(call('project_cycles_to_samples', cyc_vals, cv), want):
            V('project_cycles_to_samples', 'per-cycle values not placed on exactly the samples of each cycle', case); return
        if ctx.evaluations % 4 == 0 and len(cyc_vals) > 1:
            # the same per-cycle data addressed by cycle number in a keyed container filled in another order (results collected as
            # they complete, a sorted table): item k's value is vals[k]
            order = ctx.rng.permutation(len(cyc_vals))
            keyed = {int(k): float(cyc_vals[k]) for k in order}
            ctx.count('projections_of_keyed_values')
            if not same(call('project_cycles_to_samples', keyed, cv), want):
                V('project_cycles_to_samples:keyed-values', 'per-cycle values given as {cycle: value} (filled in another order) are not placed on the samples of '
                  'their cycles', case); return
            import pandas as pd
            ser = pd.Series([float(cyc_vals[k]) for k in order], index=[int(k) for k in order])
            if not same(call('project_cycles_to_samples', ser, cv), want):
                V('project_cycles_to_samples:keyed-values', 'per-cycle values given as a Series indexed by cycle number (rows in another order) are not placed '
                  'on the samples of their cycles', case); return
        want = np.array([sub_vals[sv[c]] if sel[c] else np.nan for c in range(K)])
        if not same(call('project_subset_to_cycles', sub_vals, sv), want):
            V('project_subset_to_cycles', 'per-subset values not placed on exactly the selected cycles', case); return
        want_c_sub = want
        want_s = np.array([sub_vals[sv[l]] if (l >= 0 and sel[l]) else np.nan for l in cv])
        if not same(call('project_subset_to_samples', sub_vals, sv, cv), want_s):
            V('project_subset_to_samples', 'per-subset values not placed on exactly the samples of selected cycles', case); return
        if ctx.evaluations % 3 == 0 and len(sub_vals):
            # an infinite per-item value (a ratio with a zero denominator) is a value like any other: only NaN marks "no value"
            j = int(ctx.rng.integers(len(sub_vals)))
            big = float(gens.pick(ctx.rng, [np.inf, -np.inf]))
            sv_inf = np.array(sub_vals, dtype=float)
            sv_inf[j] = big
            ws = np.array(want_s, dtype=float)
            ws[np.asarray(want_s) == sub_vals[j]] = big
            ctx.count('projections_of_infinite_values')
            if not same(call('project_subset_to_samples', sv_inf, sv, cv), ws):
                V('project_subset_to_samples:infinite-value', 'an infinite per-subset value is not placed on the samples of its cycle', case); return
            wc = np.array(want_c_sub, dtype=float)
            wc[np.asarray(want_c_sub) == sub_vals[j]] = big
            if not same(call('project_subset_to_cycles', sv_inf, sv), wc):
                V('project_subset_to_cycles:infinite-value', 'an infinite per-subset value is not placed on its cycle', case); return
        want = np.array([ch_vals[chv[s]] for s in range(nsub)])
        if not same(call('project_chain_to_subset', ch_vals, chv), want):
            V('project_chain_to_subset', 'per-chain values not placed on exactly the subset cycles of each chain', case); return
        want = np.array([ch_vals[chv[sv[c]]] if sel[c] else np.nan for c in range(K)])
        if not same(call('project_chain_to_cycles', ch_vals, chv, sv), want):
            V('project_chain_to_cycles', 'per-chain values not placed on exactly the cycles of each chain', case); return
        want = np.array([ch_vals[chv[sv[l]]] if (l >= 0 and sel[l]) else np.nan for l in cv])
        if not same(call('project_chain_to_samples', ch_vals, chv, sv, cv), want):
            V('project_chain_to_samples', 'per-chain values not placed on exactly the samples of each chain', case); return
    except RuntimeError as e:
        msg = str(e)
        name = msg.split('(')[0]
        key = 'map-not-total:' + name
        if name == 'map_chain_to_cycle' and any(len(ch) == 1 for ch in chains):
            key += ':single-cycle-chain'
        V(key, msg, case)
        return
    ctx.count('structures_ok')
    ctx.count('map_calls', 3 * K + 6 * n + 3 * nsub + 3 * nch)


def spot_check_huge(ctx, rng):
    """A recording with > 100 000 cycles: the look-ups are spot-checked at high indices (a full check is quadratic)."""
    from emd import _cycles_support as CS
    from emd import cycles as C
    K = int(rng.integers(110000, 130000))
    cv = np.repeat(np.arange(K), 2)
    sel = rng.random(K) < .6
    sv, chv, chains = reference(cv, sel)
    case = {'kind': 'huge', 'ncycles': K, 'seed_note': 'cycle vector = every label twice; random 60% selection'}
    ctx.case(digest('huge', K), True)
    ctx.count('very_large_structures')
    if not np.array_equal(np.asarray(C.get_subset_vector(sel.copy())), sv) or not np.array_equal(np.asarray(C.get_chain_vector(sv.copy())), chv):
        ctx.violation('subset-or-chain-vector:huge', 'subset / chain vector wrong for %d cycles' % K, case)
        return
    hi_c = [int(v) for v in rng.integers(100000, K, 6)] + [99999, 100000, 100001, K - 1]
    for c in hi_c:
        got = np.asarray(CS.map_cycle_to_samples(cv, c)).reshape(-1)
        if got.tolist() != [2 * c, 2 * c + 1]:
            ctx.violation('map_cycle_to_samples:huge', 'map_cycle_to_samples(cycle %d of %d) returned %d samples, the cycle has 2' % (c, K, len(got)), case)
            return
    # ... and a recording of more than 2**20 samples in which cycles lie across the multiples of 2**19 / 2**20
    L = int(rng.integers(29000, 31000))
    cvl = np.repeat(np.arange(45), L)
    ctx.count('very_large_structures')
    for c in sorted(set([(1 << 19) // L, (1 << 20) // L, 44, 0])):
        got = np.asarray(CS.map_cycle_to_samples(cvl, c)).reshape(-1)
        if len(got) != L or got[0] != c * L or got[-1] != (c + 1) * L - 1:
            ctx.violation('map_cycle_to_samples:huge', 'map_cycle_to_samples(cycle %d) on %d samples returned %d samples (%s..%s), the cycle has %d (%d..%d)'
                          % (c, len(cvl), len(got), got[0] if len(got) else None, got[-1] if len(got) else None, L, c * L, (c + 1) * L - 1), case)
            return
    nsub, nch = int(sel.sum()), len(chains)
    for s in [int(v) for v in rng.integers(max(nsub - 5000, 0), nsub, 5)] + [nsub - 1]:
        got = np.asarray(CS.map_subset_to_cycle(sv, s)).reshape(-1)
        if got.tolist() != [int(np.where(sel)[0][s])]:
            ctx.violation('map_subset_to_cycle:huge', 'map_subset_to_cycle(%d of %d) returned %s' % (s, nsub, got.tolist()[:5]), case)
            return
    for ci in [int(v) for v in rng.integers(max(nch - 3000, 0), nch, 5)] + [nch - 1]:
        got = np.asarray(CS.map_chain_to_subset(chv, ci)).reshape(-1)
        if got.tolist() != [int(sv[c]) for c in chains[ci]]:
            ctx.violation('map_chain_to_subset:huge', 'map_chain_to_subset(%d of %d) wrong' % (ci, nch), case)
            return
        got = np.asarray(CS.map_chain_to_cycle(chv, sv, ci)).reshape(-1)
        if got.tolist() != chains[ci]:
            ctx.violation('map_chain_to_cycle:huge', 'map_chain_to_cycle(%d of %d) wrong' % (ci, nch), case)
            return


def thread_cases(seed):
    """Look-ups and projections on equally long recordings (different cycle layouts) from different threads at the same time."""
    from emd import _cycles_support as CS
    r = np.random.default_rng(seed)
    n = int(gens.pick(r, [4000, 60000]))
    calls = []
    for k in range(4):
        lens = r.integers(4, 40, n // 4)
        cv = np.repeat(np.arange(len(lens)), lens)[:n]
        cv = np.r_[cv, np.full(n - len(cv), -1)].astype(int)
        K = int(cv.max()) + 1
        picks = [int(v) for v in r.integers(0, K, 40)]
        vals = r.standard_normal(K)
        if k % 2:
            calls.append((lambda c, p: (lambda: np.concatenate([np.asarray(CS.map_cycle_to_samples(c, i)).reshape(-1) for i in p])))(cv, picks))
        else:
            calls.append((lambda c, v: (lambda: np.asarray(CS.project_cycles_to_samples(v, c), dtype=float)))(cv, vals))
    return calls, {'seed': int(seed), 'n': n}


def thread_check(ctx, seed):
    from ..monitors import thread_probe
    calls, tcase = thread_cases(seed)
    return thread_probe(ctx, 'map_cycle_to_samples / project_cycles_to_samples (%d samples)' % tcase['n'], calls, 3 if tcase['n'] > 10000 else 10, tcase, interval=1e-6)


def run_shard(ctx):
    rng = ctx.rng
    if ctx.shard % 8 == 0:
        spot_check_huge(ctx, rng)
    if ctx.shard % 4 == 1:
        # many chains (> 256): full check on one structure of about a thousand cycles
        K = int(rng.integers(1000, 1400))
        cv = gens.label_vector(rng, ncycles=K, gaps=True)
        sel = rng.random(K) < .5
        ctx.count('structures_with_many_chains')
        check(ctx, cv, sel, {'kind': 'maps', 'cycle_vect': cv, 'selection': sel}, 'random')
    if ctx.shard % 4 == 2:
        # index vectors in a narrow integer type whose range is exactly used up: 128 labels in int8
        cv = gens.label_vector(rng, ncycles=128, gaps=True).astype(np.int8)
        sel = rng.random(128) < .6
        check(ctx, cv, sel, {'kind': 'maps', 'cycle_vect': cv, 'selection': sel, 'cv_dtype': 'int8'}, 'random')
        cv = gens.label_vector(rng, ncycles=256, gaps=True).astype(np.int16)
        sel = np.arange(256) % 2 == int(rng.integers(2))           # 128 selected cycles, each a chain of its own
        check(ctx, cv, sel, {'kind': 'maps', 'cycle_vect': cv, 'selection': sel, 'narrow': 'int8', 'cv_dtype': 'int16'}, 'random')
    if ctx.shard % 8 == 4:
        # ... and 32768 labels in int16 (projection only: the full check is quadratic)
        from emd import _cycles_support as CS
        cv = np.repeat(np.arange(32768), 2).astype(np.int16)
        vals = np.arange(32768.) * 1.5 + 7
        got = np.asarray(CS.project_cycles_to_samples(vals, cv), dtype=float).reshape(-1)
        ctx.case(digest('int16-full'), True)
        ctx.count('structures_with_exactly_filled_narrow_index_types')
        if got.shape != (65536,) or not np.array_equal(got, vals[np.repeat(np.arange(32768), 2)]):
            bad = np.where(got != vals[np.repeat(np.arange(32768), 2)])[0] if got.shape == (65536,) else []
            ctx.violation('project_cycles_to_samples:int16-full', 'per-cycle values of 32768 cycles labelled in int16 are not placed on the samples of each cycle '
                          '(%d samples wrong, first %s)' % (len(bad), bad[:3].tolist() if len(bad) else got.shape), {'kind': 'int16-full'})
    if ctx.shard % 4 == 3:
        thread_check(ctx, int(rng.integers(1 << 30)))
    n = NRANDOM[ctx.tier] // ctx.nshards
    for i in range(n):
        if ctx.out_of_time():
            break
        K = int(rng.integers(1, 41)) if rng.random() > .05 else int(rng.integers(100, 300))
        cv = gens.label_vector(rng, ncycles=K, gaps=bool(rng.random() < .7))
        if rng.random() < .3:
            cv = cv.astype(gens.pick(rng, [np.int32, np.int16]))
        if rng.random() < .3:
            cv, _ = gens.relayout(rng, cv, 'strided')
        sel = rng.random(K) < rng.uniform(.1, .9)
        check(ctx, cv, sel, {'kind': 'maps', 'cycle_vect': cv, 'selection': sel}, 'random')
    idx = 0
    buffers = {}   # one preallocated cycle-vector buffer per recording length, overwritten in place (as a caller re-using memory would)
    for K in range(1, MAXLEN[ctx.tier] + 1):
        lays = layouts(K)
        for bits in itertools.product((False, True), repeat=K):
            idx += 1
            if idx % ctx.nshards != ctx.shard:
                continue
            sel = np.array(bits)
            for name, cv in lays:
                check(ctx, cv, sel, {'kind': 'maps', 'cycle_vect': cv, 'selection': sel}, 'enum')
            if idx % 3 == 0:
                # the same structures written successively into one reused buffer
                for name, cv in lays:
                    perm = np.r_[cv[len(cv) // 2:], cv[:len(cv) // 2]]
                    lab = np.full(len(cv), -1)
                    nxt = 0
                    for j in range(len(perm)):   # relabel in temporal order so that the labels stay 0..K-1 consecutive
                        if perm[j] >= 0:
                            if j == 0 or perm[j] != perm[j - 1]:
                                lab[j] = nxt
                                nxt += 1
                            else:
                                lab[j] = lab[j - 1]
                    if nxt != K:
                        continue
                    buf = buffers.setdefault(len(cv), np.empty(len(cv), dtype=int))
                    for content in (cv, lab):
                        buf[:] = content
                        ctx.count('structures_in_reused_buffer')
                        check(ctx, buf, sel, {'kind': 'maps', 'cycle_vect': content.copy(), 'selection': sel,
                                              'note': 'checked in a reused buffer that previously held another cycle vector of the same length'}, 'reused-buffer')
            if idx < 80 and idx % 16 == 0:
                ctx.sample({'selection': [int(b) for b in bits], 'layouts': {nm: v.tolist() for nm, v in lays}})
    ctx.count('exhaustive_done')


def finalize(agg, tier):
    c = agg['counters']
    r = []
    want = sum(2 ** K for K in range(1, MAXLEN[tier] + 1)) * 3
    if c.get('structures:enum', 0) != want:
        r.append('enumerated %d structures, expected %d' % (c.get('structures:enum', 0), want))
    for k, need in [('single_cycle_chains', 100), ('structures:random', 100)]:
        if c.get(k, 0) < need:
            r.append('%s: %d < %d' % (k, c.get(k, 0), need))
    return r


def replay(ctx, case):
    if case.get('kind') == 'huge':
        spot_check_huge(ctx, np.random.default_rng(0))
        return
    if case.get('kind') == 'threads':
        for _ in range(5):
            if not thread_check(ctx, case['seed']):
                break
        return
    if case.get('kind') == 'int16-full':
        from emd import _cycles_support as CS
        cv = np.repeat(np.arange(32768), 2).astype(np.int16)
        vals = np.arange(32768.) * 1.5 + 7
        got = np.asarray(CS.project_cycles_to_samples(vals, cv), dtype=float).reshape(-1)
        if got.shape != (65536,) or not np.array_equal(got, vals[np.repeat(np.arange(32768), 2)]):
            ctx.violation('project_cycles_to_samples:int16-full', 'replayed', case)
        return
    check(ctx, np.asarray(case['cycle_vect']).astype(case.get('cv_dtype', 'int64')), np.asarray(case['selection'], bool), case, 'replay')
