"""C11 - the holospectrum bins energy jointly by carrier and amplitude-modulation frequency.

Oracle: triple-loop brute force over (time, first-level IMF, second-level IMF) into
[time x AM bins x carrier bins] with half-open bins; squash_time 'sum' / 'mean' must equal the
sum / mean over time of the full output."""
import itertools

import numpy as np

from .. import gens
from ..harness import digest

MANIFEST = {
    'text': 'Held on every holospectrum computed: emd.spectra.holospectrum is compared with a triple-loop reference for all three squash_time settings and both modes on every frequency configuration with T*M*K <= 2 (and the single-time shapes with K=3; thorough adds the 3-sample shapes over a reduced pool) drawn from edge-hitting pools for independent carrier and AM bin sets of 1..3 bins, plus seeded random arrays (T<=12, M<=3, K<=3, independent linear/log bin sets of 1..5 bins) with out-of-range and edge-valued frequencies; shapes must be [T x AM x carrier] / [AM x carrier] and values agree to 1e-12 of the total. Exhaustive at the stated bound, sampling beyond. Schedules: the same deterministic calls made from 4-5 threads of one interpreter at once (thread switch every 1-10 microseconds) must reproduce the results obtained alone. Faults: a call abandoned at an arbitrary statement (sys.monitoring failpoint) must leave nothing behind for the next valid call. A quarter of the shards run in a session that turns Deprecation/Future/UserWarnings into errors.',
    'note': 'Trusted: numpy/scipy.sparse. A NaN frequency belongs to no bin; a sample out of range contributes nothing whatever its amplitude (NaN / inf included); big-endian amplitude arrays are not generated (scipy.sparse refuses them).',
    'technique': 'brute-force reference histogram vs the real holospectrum, exhaustive edge-hitting enumeration + seeded random',
}
LOGGER_ON_ODD_SHARDS = True
BUDGET_S = {'quick': 60, 'thorough': 420}
NRANDOM = {'quick': 4000, 'thorough': 60000}
EXHAUSTIVE = {'quick': True, 'thorough': True}
EXHAUSTIVE_SCOPE = {'quick': 'all (carrier, AM) frequency configurations with T*M*K <= 2, and shape (1,1,3), over edge-hitting pools; bins 1..3 x 1..3; both modes; three squash settings',
                    'thorough': 'as quick plus shapes (3,1,1), (1,3,1) over a reduced 6-value pool'}
RULE = ('exhaustive over edge-hitting pools (below range, each edge, the float just below each edge, bin midpoints, above '
        'range) for small shapes, then seeded random arrays; non-trivial = at least one sample inside both ranges and one '
        'outside or on an edge; distinct by (frequencies, edges, mode)')
ASSUMPTIONS = ['amplitudes are fixed distinct non-zero values so that a misplaced sample always changes the result']

AMPS = np.array([1.0, 2.5, -0.75, 4.0, 0.5, 3.25, -1.5, 2.0, 1.75, 0.25, 5.0, -2.25])


def brute(infr, infr2, inam2, e1, e2, mode):
    infr, infr2 = np.asarray(infr, dtype=float), np.asarray(infr2, dtype=float)
    T, M, K = infr2.shape
    n1, n2 = len(e1) - 1, len(e2) - 1
    H = np.zeros((T, n2, n1))
    for t in range(T):
        for m in range(M):
            b1 = [b for b in range(n1) if e1[b] <= infr[t, m] < e1[b + 1]]
            if not b1:
                continue
            for k in range(K):
                b2 = [b for b in range(n2) if e2[b] <= infr2[t, m, k] < e2[b + 1]]
                if not b2:
                    continue
                a = inam2[t, m, k]
                H[t, b2[0], b1[0]] += a * a if mode == 'energy' else a
    return H


def brute_fast(infr, infr2, inam2, e1, e2, mode):
    """Vectorised equivalent of brute() for large arrays (comparisons only, no digitize)."""
    infr, infr2 = np.asarray(infr, dtype=float), np.asarray(infr2, dtype=float)
    T, M, K = infr2.shape
    n1, n2 = len(e1) - 1, len(e2) - 1
    b1 = (infr[:, :, None] >= e1[None, None, :]).sum(axis=2) - 1
    b1[(infr < e1[0]) | (infr >= e1[-1])] = -1
    b2 = (infr2[:, :, :, None] >= e2[None, None, None, :]).sum(axis=3) - 1
    b2[(infr2 < e2[0]) | (infr2 >= e2[-1])] = -1
    b1 = np.broadcast_to(b1[:, :, None], (T, M, K))
    ok = (b1 >= 0) & (b2 >= 0)
    a = (inam2 ** 2 if mode == 'energy' else inam2)
    H = np.zeros((T, n2, n1))
    tt = np.broadcast_to(np.arange(T)[:, None, None], (T, M, K))
    np.add.at(H, (tt[ok], b2[ok], b1[ok]), a[ok])
    return H


def pool(edges, reduced=False):
    lo, hi = edges[0], edges[-1]
    vals = [lo - .3 * (hi - lo) - .1]
    for i, e in enumerate(edges):
        vals.append(np.nextafter(e, -np.inf))
        vals.append(e)
        if i < len(edges) - 1 and not reduced:
            vals.append((e + edges[i + 1]) / 2)
    vals.append(hi + .3 * (hi - lo) + .1)
    if reduced:
        vals = [vals[0], edges[0], (edges[0] + edges[1]) / 2, np.nextafter(edges[-1], -np.inf), edges[-1], vals[-1]]
    return np.array(vals)


def compare(ctx, infr, infr2, inam2, e1, e2, mode, case, tag):
    from emd import spectra as SP
    H = brute(infr, infr2, inam2, e1, e2, mode) if infr2.size <= 4000 else brute_fast(infr, infr2, inam2, e1, e2, mode)
    tot = np.abs(inam2 ** 2 if mode == 'energy' else inam2).sum() or 1.0
    tol = 1e-12 * tot
    Ha = brute(infr, infr2, np.abs(inam2), e1, e2, mode) if infr2.size <= 4000 else brute_fast(infr, infr2, np.abs(inam2), e1, e2, mode)
    tolH = 1e-12 * Ha + 1e-300        # per-cell tolerance (see C10)
    f1, f2 = np.asarray(infr, dtype=float), np.asarray(infr2, dtype=float)
    in1 = (f1 >= e1[0]) & (f1 < e1[-1])
    in2 = (f2 >= e2[0]) & (f2 < e2[-1])
    both = in1[:, :, None] & in2
    special = (~both).any() or np.isin(infr, e1).any() or np.isin(infr2, e2).any()
    ctx.case(digest(infr, infr2, e1, e2, mode), bool(both.any() and special))
    keep = (infr.copy(), infr2.copy(), inam2.copy())
    form = ctx.evaluations % 5
    a1, a2 = (e1, e2) if form > 1 else ((list(map(float, e1)), tuple(map(float, e2))) if form == 0 else (tuple(map(float, e1)), list(map(float, e2))))
    if form <= 1:
        ctx.count('edges_passed_as_list_or_tuple')
    full = SP.holospectrum(infr, infr2, inam2, a1, a2, mode=mode, squash_time=False)
    ssum = SP.holospectrum(infr, infr2, inam2, a1, a2, mode=mode, squash_time='sum')
    smean = SP.holospectrum(infr, infr2, inam2, a1, a2, mode=mode, squash_time='mean')
    ctx.count('holospectra_compared')
    if full.shape != H.shape:
        ctx.violation('holo-shape', 'full holospectrum has shape %s, expected [time x AM bins x carrier bins] = %s' % (full.shape, H.shape), case)
        return
    if ssum.shape != H.shape[1:] or smean.shape != H.shape[1:]:
        ctx.violation('holo-shape-squashed', 'time-squashed holospectrum has shape %s / %s, expected %s' % (ssum.shape, smean.shape, H.shape[1:]), case)
        return
    if np.any(np.isfinite(full) != np.isfinite(H)) or np.any(np.abs(full - H) > tolH):
        t, a, c = np.unravel_index(np.argmax(np.where(np.isfinite(full) != np.isfinite(H), np.inf, np.nan_to_num(np.abs(full - H)))), H.shape)
        key = 'holo-full'
        if np.abs(np.swapaxes(full, 1, 2) - H).max() <= tol if full.shape[1] == full.shape[2] else False:
            key = 'holo-axes-swapped'
        elif not special:
            key = 'holo-full-inrange'
        ctx.violation(key, 'holospectrum[t=%d, am=%d, carrier=%d] = %.4g, brute force %.4g (carrier edges %s, AM edges %s, mode %s)'
                      % (t, a, c, full[t, a, c], H[t, a, c], np.round(e1, 3).tolist(), np.round(e2, 3).tolist(), mode), case)
        return
    if np.any(np.isfinite(ssum) != np.isfinite(H.sum(axis=0))) or np.any(np.abs(ssum - H.sum(axis=0)) > 1e-12 * Ha.sum(axis=0) + 1e-300):
        ctx.violation('holo-sum', "squash_time='sum' differs from the sum over time of the full output", case)
        return
    if np.any(np.abs(smean - H.mean(axis=0)) > 1e-12 * Ha.mean(axis=0) + 1e-300):
        ctx.violation('holo-mean', "squash_time='mean' differs from the mean over time of the full output", case)
        return
    if not all(np.array_equal(a, b, equal_nan=True) for a, b in zip(keep, (infr, infr2, inam2))):
        ctx.violation('holo-mutates-input', 'holospectrum modified its input arrays', case)
        return
    ctx.count('agree:' + tag)
    if (~both).any():
        ctx.count('with_out_of_range')
    if np.isin(infr, e1).any() or np.isin(infr2, e2).any():
        ctx.count('with_value_on_edge')


def enum_cases(tier):
    """Yields (shape, e1, e2, reduced)."""
    for n1 in (1, 2, 3):
        for n2 in (1, 2, 3):
            e1 = np.linspace(2.0, 8.0, n1 + 1) if n1 != 2 else np.exp(np.linspace(np.log(2.0), np.log(18.0), 3))
            e2 = np.linspace(.5, 3.5, n2 + 1) if n2 != 3 else np.exp(np.linspace(np.log(.5), np.log(4.0), 4))
            shapes = [(1, 1, 1), (2, 1, 1), (1, 2, 1), (1, 1, 2)]
            if n1 <= 2 and n2 <= 2:
                shapes.append((1, 1, 3))
            for shp in shapes:
                yield shp, e1, e2, False
            if tier == 'thorough' and n1 <= 2 and n2 <= 2:
                for shp in [(3, 1, 1), (1, 3, 1)]:
                    yield shp, e1, e2, True


def hazard_probe(ctx, rng, seed=None):
    """Schedules and faults around correct inputs: (a) four threads of one interpreter computing holospectra of same-shaped,
    different recordings at once must each get what they get alone; (b) a call abandoned at an arbitrary statement (what Ctrl-C,
    a MemoryError or a raising log handler do) must leave nothing behind: the next valid call of the same shape is compared with
    its result in a clean session."""
    from emd import spectra as SP
    from ..monitors import run_in_threads, abort_then_call
    seed = int(rng.integers(1 << 30)) if seed is None else seed
    r = np.random.default_rng(seed)
    T, M, K = int(gens.pick(r, [12, 200, 3000])), int(r.integers(1, 3)), int(r.integers(1, 4))
    e1, _ = SP.define_hist_bins(1.0, 20.0, int(r.integers(2, 21)))
    e2, _ = SP.define_hist_bins(.2, 4.0, int(r.integers(2, 17)))
    squash = gens.pick(r, [False, False, 'sum', 'mean'])
    mode = gens.pick(r, ['energy', 'amplitude'])
    case = {'kind': 'hazard', 'seed': seed}

    def make(s):
        q = np.random.default_rng([seed, s])
        args = (q.uniform(0, 22, (T, M)), q.uniform(0, 4.5, (T, M, K)), q.uniform(.1, 3, (T, M, K)))
        return lambda: SP.holospectrum(*args, e1, e2, mode=mode, squash_time=squash)
    calls = [make(s) for s in range(4)]
    made, bad = run_in_threads(calls, 60 if T <= 200 else 12)
    ctx.count('concurrent_thread_calls', made)
    ctx.case(digest('threads', seed), True)
    if bad:
        ctx.violation('threads', 'holospectrum called from 4 threads at once on same-shaped recordings (%d x %d x %d, squash_time=%s): %s'
                      % (T, M, K, squash, bad[0]), case)
        return
    clean = calls[1]()
    nlines, outs = abort_then_call(('emd/spectra.py', 'emd/support.py'), calls[0], calls[1], 16, r)
    ctx.count('aborted_calls_followed_by_a_valid_call', len(outs))
    ctx.maxi('statements_in_one_call', nlines)
    for where, got in outs:
        if isinstance(got, Exception) or not np.array_equal(got, clean):
            ctx.violation('state-left-by-aborted-call', 'after a holospectrum call was abandoned at %s:%d (%s), the next valid call %s'
                          % (where[0].rsplit('/', 1)[-1], where[2], where[1],
                             'raised %s' % type(got).__name__ if isinstance(got, Exception) else 'returned a different spectrum than in a clean session'), case)
            return


def run_shard(ctx):
    from emd import spectra as SP
    rng = ctx.rng
    for _ in range(3):
        hazard_probe(ctx, rng)
    n = NRANDOM[ctx.tier] // ctx.nshards
    for i in range(n):
        if ctx.out_of_time():
            break
        T, M, K = (int(rng.integers(1, 13)) if rng.random() > .02 else int(rng.integers(300, 800))), int(rng.integers(1, 4)), int(rng.integers(1, 4))
        nb1 = int(rng.integers(1, 6)) if rng.random() < .7 else int(rng.integers(6, 70))      # "independent bin sets": also many bins
        nb2 = int(rng.integers(1, 6)) if rng.random() < .7 else int(rng.integers(6, 70))
        if i == 0 and ctx.shard % 4 == 0:
            # one very long recording per four shards (size-dependent code paths)
            T, M, K = int(rng.integers(66000, 90000)), 2, 2
            ctx.count('very_long_recordings')
        e1, _ = SP.define_hist_bins(float(rng.uniform(1, 5)), float(rng.uniform(8, 40)), nb1, scale=gens.pick(rng, ['linear', 'log']))
        e2, _ = SP.define_hist_bins(float(rng.uniform(.1, 1)), float(rng.uniform(2, 6)), nb2, scale=gens.pick(rng, ['linear', 'log']))
        infr = rng.uniform(e1[0] - .3 * (e1[-1] - e1[0]), e1[-1] + .3 * (e1[-1] - e1[0]), (T, M))
        infr2 = rng.uniform(e2[0] - .3 * (e2[-1] - e2[0]), e2[-1] + .3 * (e2[-1] - e2[0]), (T, M, K))
        r1, r2 = rng.random((T, M)), rng.random((T, M, K))
        infr[r1 < .1] = rng.choice(e1, int((r1 < .1).sum()))
        infr2[r2 < .1] = rng.choice(e2, int((r2 < .1).sum()))
        infr2[(r2 > .95)] *= -1
        inam2 = rng.uniform(.1, 3, (T, M, K))
        if rng.random() < .15:
            inam2 = inam2 * 10.0 ** rng.integers(-9, 10, (T, M, K))
            ctx.count('wide_dynamic_range_cases')
        if rng.random() < .3:
            inam2[rng.integers(0, T), :, :] = 0.0  # a time point without any energy
            ctx.count('with_silent_time_point')
        mode = gens.pick(rng, ['energy', 'amplitude'])
        if rng.random() < .12:
            # a blanked artefact: a few frequency estimates are NaN (such a sample belongs to no bin, the others are binned as usual)
            if rng.random() < .5:
                infr[rng.integers(0, T), rng.integers(0, M)] = np.nan
            else:
                infr2[rng.integers(0, T), rng.integers(0, M), rng.integers(0, K)] = np.nan
            ctx.count('cases_with_nan_frequencies')
        if rng.random() < .12:
            # an artefact blanked in amplitude AND frequency: a sample out of range contributes nothing, whatever its amplitude
            t_, m_, k_ = int(rng.integers(0, T)), int(rng.integers(0, M)), int(rng.integers(0, K))
            if rng.random() < .5:
                infr2[t_, m_, k_] = float(gens.pick(rng, [e2[-1] + 1.0, e2[0] - 1.0, np.nan]))
                inam2[t_, m_, k_] = float(gens.pick(rng, [np.nan, np.inf]))
            else:
                infr[t_, m_] = float(gens.pick(rng, [e1[-1] + 1.0, e1[0] - 1.0]))
                inam2[t_, m_, :] = float(gens.pick(rng, [np.nan, np.inf]))
            ctx.count('cases_with_non_finite_amplitude_out_of_range')
        if rng.random() < .15:
            # the unit of frequency is the caller's: the same recording and both bin sets in Hz for very slow / very fast processes
            u = float(gens.pick(rng, [1e-9, 1e-6, 1e6]))
            infr, e1, infr2, e2 = infr * u, e1 * u, infr2 * u, e2 * u
            ctx.count('cases_in_other_frequency_units')
        fr = rng.random()
        if fr < .1:
            infr, infr2 = infr.astype(np.float32), infr2.astype(np.float32)
        infr, l1 = gens.relayout(rng, infr)
        infr2, l2 = gens.relayout(rng, infr2)
        inam2, l3 = gens.relayout(rng, inam2, native=True)   # (scipy.sparse refuses non-native byte order: not the property's business)
        ctx.count('layout:%s/%s/%s' % (l1, l2, l3))
        ctx.count('freq_dtype:%s' % infr.dtype)
        case = {'kind': 'holo', 'infr': infr, 'infr2': infr2, 'inam2': inam2, 'e1': e1, 'e2': e2, 'mode': mode,
                'layouts': [l1, l2, l3], 'freq_dtype': str(infr.dtype)}
        try:
            compare(ctx, infr, infr2, inam2, e1, e2, mode, case, 'random')
        except Exception as e:
            ctx.violation('exception:%s' % type(e).__name__, 'holospectrum raised %s: %s' % (type(e).__name__, str(e)[:120]), case)

    idx = 0
    for shp, e1, e2, reduced in enum_cases(ctx.tier):
        T, M, K = shp
        p1, p2 = pool(e1, reduced), pool(e2, reduced)
        for c1 in itertools.product(range(len(p1)), repeat=T * M):
            for c2 in itertools.product(range(len(p2)), repeat=T * M * K):
                idx += 1
                if idx % ctx.nshards != ctx.shard:
                    continue
                infr = p1[list(c1)].reshape(T, M)
                infr2 = p2[list(c2)].reshape(T, M, K)
                inam2 = AMPS[:T * M * K].reshape(T, M, K)
                for mode in ('energy', 'amplitude'):
                    case = {'kind': 'holo', 'infr': infr, 'infr2': infr2, 'inam2': inam2, 'e1': e1, 'e2': e2, 'mode': mode}
                    try:
                        compare(ctx, infr.copy(), infr2.copy(), inam2.copy(), e1, e2, mode, case, 'enum')
                    except Exception as e:
                        ctx.case(digest(infr, infr2, e1, e2, mode, 'exc'), False)
                        ctx.violation('exception:%s' % type(e).__name__, 'holospectrum raised %s: %s' % (type(e).__name__, str(e)[:120]), case)
                if idx < 20 and ctx.shard == 0:
                    ctx.sample({'shape': shp, 'carrier_edges': np.round(e1, 3), 'am_edges': np.round(e2, 3), 'infr': infr.reshape(-1), 'infr2': infr2.reshape(-1)})
    ctx.count('exhaustive_done')

def finalize(agg, tier):
    c = agg['counters']
    r = []
    if c.get('exhaustive_done', 0) < 1:
        r.append('enumeration incomplete')
    for k in ['with_out_of_range', 'with_value_on_edge', 'agree:random', 'agree:enum']:
        if c.get(k, 0) < 100:
            r.append('%s: only %d' % (k, c.get(k, 0)))
    return r


def replay(ctx, case):
    if case['kind'] == 'hazard':
        return hazard_probe(ctx, None, seed=case['seed'])
    f = lambda k: np.asarray(case[k], float)
    infr, infr2, inam2 = f('infr').astype(case.get('freq_dtype', 'float64')), f('infr2').astype(case.get('freq_dtype', 'float64')), f('inam2')
    if case.get('layouts'):
        infr, _ = gens.relayout(None, infr, case['layouts'][0])
        infr2, _ = gens.relayout(None, infr2, case['layouts'][1])
        inam2, _ = gens.relayout(None, inam2, case['layouts'][2])
    compare(ctx, infr, infr2, inam2, f('e1'), f('e2'), case['mode'], case, 'replay')
