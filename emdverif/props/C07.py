"""C07 - masked sift applies documented masks, removes them, is schedule independent.

Oracles:
 * executable specification of one masked extraction, built on the public get_next_imf:
     mean over p in linspace(0,2pi,P+1)[:P] of get_next_imf(x + a cos(2 pi z t + p)) - a cos(2 pi z t + p)
 * mask_sift re-derived layer by layer from that spec (frequency ladder z0/step^i or the user's list;
   amplitude a_i = mask_amp[i] * {1, std(x), std(previous IMF)});
 * schedule oracle: outputs for different nprocesses must be array_equal to one another, with seeded
   random delays injected in the worker processes and the observed job->worker assignments recorded."""
import os
import shutil
import time

import numpy as np

from .. import gens
from ..harness import WORK, watchdog, WatchdogTimeout, digest
from ..monitors import StageTrace, thread_probe, in_process_pools

MANIFEST = {
    'text': 'Held on every call executed: get_next_imf_mask and mask_sift(ret_mask_freq=True) are compared with an executable specification of the masking rule (phase grid, mask subtraction before averaging, frequency ladder, three amplitude modes, scalar/array amplitudes, zero-amplitude = plain extraction) for seeded signals x mask-frequency sources {zc, if, float, list} x nphases 1..8, and the same call is repeated with nprocesses drawn from 1..8 while worker-side wrappers inject seeded 0-3 ms delays; all worker counts must give array_equal results. Evidence lists the distinct worker counts and job->worker assignment patterns actually observed; too little schedule diversity makes the run inconclusive. OS schedules are sampled, not enumerated. Schedules: the same deterministic calls made from 4-5 threads of one interpreter at once (thread switch every 1-10 microseconds) must reproduce the results obtained alone. A quarter of the shards run in a session that turns Deprecation/Future/UserWarnings into errors.',
    'note': 'Trusted: the public get_next_imf (C04) and frequency_transform (C09) used by the specification; numpy/scipy. Column count of mask_sift is C03\'s business; here every returned column and frequency is judged.',
    'technique': 'executable-specification monitor on the real masked sift + schedule-independence oracle with delay injection and per-process event logs',
}
LOGGER_ON_ODD_SHARDS = 'quarter'   # (sifting logs heavily: a quarter of the shards run with the logger set up)
SESSION_NOISE = True      # every shard starts after unrelated session activity (harness.session_noise)
BUDGET_S = {'quick': 75, 'thorough': 480}
NCASES = {'quick': 1600, 'thorough': 16000}
RULE = ('seeded random signals (noise, walks, tones+trend, AM/FM; 100..400 samples) x {single masked extraction, full mask '
        'sift} x mask-frequency source x amplitude mode x scalar/array amplitudes x step factor {2,3,1.5} x nphases 1..8 x '
        '3 values of nprocesses from 1..8 per case; non-trivial = non-zero mask amplitude; distinct by sha1 of (signal, options)')
ASSUMPTIONS = ['mask definition is checked to 1e-12 relative (the spec averages in the same order, bit-equality is counted)']

TOL = 1e-12


def spec_masked_extraction(S, x, z, amp, nphases, io, eo, xo):
    n = len(x)
    t = np.arange(n)
    phases = np.linspace(0, 2 * np.pi, nphases + 1)[:nphases]
    cols, flags = [], []
    for p in phases:
        m = amp * np.cos(2 * np.pi * z * t + p)
        imf, fl = S.get_next_imf((x + m)[:, None], envelope_opts=eo, extrema_opts=xo, **io)
        cols.append(imf[:, 0] - m)
        flags.append(fl)
    return np.mean(np.array(cols), axis=0), bool(np.any(flags))


def gen_case(rng, kind):
    fam = gens.pick(rng, ['noise', 'walk', 'tones', 'amfm'])
    n = int(rng.integers(100, 401))
    x = gens.signal(rng, fam, n)
    io = gens.imf_opts(rng)
    if rng.random() < .08:
        # events of one sign on a flat baseline: several strict maxima, fewer than two strict minima - the first unmasked extraction
        # hands the recording back unchanged (nothing more to sift), which says nothing about whether it oscillates
        fam = 'one-signed-impulses'
        x = np.full(n, float(gens.pick(rng, [0.0, 0.5])))
        for i in rng.choice(np.arange(5, n - 5, 7), int(rng.integers(3, 9)), replace=False):
            x[int(i)] += float(rng.uniform(.5, 2))
    elif rng.random() < .1:
        io['energy_thresh'] = float(gens.pick(rng, [50, 20]))       # the documented energy-ratio option: extraction ends early on a clean oscillation
    eo = gens.env_opts(rng, 'splrep' if rng.random() < .7 else None)
    xo = gens.ext_opts(rng)
    if rng.random() < .15:
        # integer-typed / single-precision recordings are finite signals too; the specification works on the same values in float64
        dt = gens.pick(rng, [np.int16, np.int32, np.int64, np.float32])
        x = (np.round(x / np.abs(x).max() * 200).astype(dt) if np.dtype(dt).kind == 'i' else x.astype(dt))
    nps = sorted(set([1] + [int(v) for v in rng.integers(2, 9, 2)]))
    c = {'kind': kind, 'family': fam, 'x': x, 'imf_opts': io, 'envelope_opts': eo, 'extrema_opts': xo, 'nprocesses': nps,
         'delay_seed': int(rng.integers(2 ** 31))}
    if kind == 'gnim':
        c['z'] = float(rng.uniform(0.02, 0.45)) if rng.random() > .06 else 0.0
        if rng.random() < .08:
            # a whole fraction typed with six or seven decimals, on a longer record
            c['z'] = float(gens.pick(rng, [0.142857, 0.333333, 0.166667, 0.4999999, 0.1111111, 0.0909091]))
            c['x'] = gens.signal(rng, fam if fam in ('noise', 'walk', 'tones', 'amfm') else 'noise', int(rng.integers(2000, 5000)))
            c['amp'] = float(c['x'].std())     # (a zero-frequency mask is a constant offset amp*cos(phase))
        # (the documented mask is amp*cos(2 pi z t + phase): a negative amplitude is a mask like any other, what an amplitude sweep hands in)
        c['amp'] = float(gens.pick(rng, [0.0, .1, 1, 3, -1, -.5])) * float(x.std())
        c['nphases'] = int(rng.integers(1, 9))
    else:
        c['mask_freqs'] = gens.pick(rng, ['zc', 'if', float(rng.uniform(.1, .4)),
                                          [float(v) for v in np.sort(rng.uniform(.01, .45, 5))[::-1]],
                                          [float(v) for v in rng.uniform(.01, .45, 5)],          # the user's order, not sorted
                                          [.4, .2, .1, .05, .025, 0], [.3, 0.0, .12, .05, .02],   # the docstring's example ends with a zero-frequency mask
                                          tuple(float(v) for v in np.sort(rng.uniform(.01, .45, 5)))])
        c['mask_amp_mode'] = gens.pick(rng, ['abs', 'ratio_sig', 'ratio_imf'])
        c['max_imfs'] = int(rng.integers(1, 6))
        c['mask_amp'] = float(gens.pick(rng, [1, .5, 2, 0.0, -1.0])) if rng.random() < .6 else rng.uniform(.2, 2, 5) * rng.choice([1, 1, 1, -1], 5)
        if not np.isscalar(c['mask_amp']) and rng.random() < .4:
            c['mask_amp'][int(rng.integers(0, 5))] = 0.0     # a layer without a mask in the middle of the ladder
        c['mask_step_factor'] = float(gens.pick(rng, [2, 3, 1.5]))
        c['nphases'] = int(rng.integers(1, 5))
        c['nprocesses'] = nps[:2]
    return c


def schedule_obs(ctx, tr, ndigest_to_job):
    """From the trace of one call: which worker pid ran which job; returns normalised map."""
    ev = [e for e in tr.collect() if e['stage'] == 'gni' and e['pid'] != os.getpid()]
    amap = {}
    for e in ev:
        sha = e['arr'].get('X', {}).get('sha')
        if sha in ndigest_to_job:
            amap[ndigest_to_job[sha]] = e['pid']
    if not amap:
        return None, 0
    order = {}
    norm = tuple(order.setdefault(amap[j], len(order)) for j in sorted(amap))
    return norm, len(set(amap.values()))


def check_gnim(ctx, tr, case):
    from emd import sift as S
    xin, io, eo, xo = case['x'], case['imf_opts'], case['envelope_opts'], case['extrema_opts']
    x = np.asarray(xin, dtype=float)
    ctx.count('input_dtype:%s' % xin.dtype)
    z, amp, P = case['z'], case['amp'], case['nphases']
    ctx.case(digest(x, z, amp, P, io, eo, xo), amp != 0)
    ref, rflag = spec_masked_extraction(S, x, z, amp, P, io, eo, xo)
    scale = max(np.abs(x).max(), 1e-300)
    t = np.arange(len(x))
    phases = np.linspace(0, 2 * np.pi, P + 1)[:P]
    d2j = {digest((x + amp * np.cos(2 * np.pi * z * t + p))[:, None]): j for j, p in enumerate(phases)}
    outs = {}
    for npr in case['nprocesses']:
        tr.begin('gnim')
        tr.delay_rng = np.random.default_rng(case['delay_seed'] + npr)
        out, flag = S.get_next_imf_mask(xin.copy(), z, amp, nphases=P, nprocesses=npr, imf_opts=io, envelope_opts=eo, extrema_opts=xo)
        outs[npr] = out
        ctx.count('masked_extractions')
        norm, nworkers = schedule_obs(ctx, tr, d2j)
        if norm is not None:
            ctx.add('worker_counts_seen', nworkers)
            ctx.add('job_to_worker_maps', str(norm))
            if nworkers >= 2:
                ctx.count('calls_with_jobs_on_2+_workers')
        if out.shape != (len(x), 1):
            ctx.violation('shape:get_next_imf_mask', 'returned shape %s' % (out.shape,), case)
            return
        err = np.abs(out[:, 0] - ref).max() / scale
        if np.array_equal(out[:, 0], ref):
            ctx.count('exact_matches')
        if err > TOL:
            key = 'mask-definition' + (':zero-amp' if amp == 0 else '')
            ctx.violation(key, 'get_next_imf_mask(z=%.3g, amp=%.3g, nphases=%d, nprocesses=%d) differs from the mean over the '
                          'phase grid of get_next_imf(x+mask)-mask: rel err %.3g' % (z, amp, P, npr, err), case)
            return
        ctx.maxi('max_rel_err_vs_spec', err)
        if bool(flag) != rflag:
            ctx.violation('mask-flag', 'continue flag %s, specification says %s (any of the per-phase flags)' % (flag, rflag), case)
            return
    if amp == 0:
        plain, _ = S.get_next_imf(x[:, None], envelope_opts=eo, extrema_opts=xo, **io)
        e0 = np.abs(outs[case['nprocesses'][0]] - plain).max() / scale
        ctx.count('zero_amplitude_cases')
        if e0 > 8 * np.finfo(float).eps:
            ctx.violation('mask-definition:zero-amp', 'zero-amplitude mask does not reduce to unmasked extraction (rel err %.3g)' % e0, case)
    first = outs[case['nprocesses'][0]]
    for npr, o in outs.items():
        ctx.count('schedule_comparisons')
        if not np.array_equal(o, first):
            ctx.violation('schedule-dependence', 'result with nprocesses=%d differs from nprocesses=%d (max diff %.3g)'
                          % (npr, case['nprocesses'][0], np.abs(o - first).max()), case)
            return


def check_mask_sift(ctx, tr, case):
    from emd import sift as S
    from emd import spectra
    xin, io, eo, xo = case['x'], case['imf_opts'], case['envelope_opts'], case['extrema_opts']
    x = np.asarray(xin, dtype=float)
    ctx.count('input_dtype:%s' % xin.dtype)
    mf, mode, P = case['mask_freqs'], case['mask_amp_mode'], case['nphases']
    step, cap, ma = case['mask_step_factor'], case['max_imfs'], case['mask_amp']
    ctx.case(digest(x, mf, mode, P, step, cap, ma, io, eo, xo), True)
    scale = max(np.abs(x).max(), 1e-300)
    outs = {}
    for npr in case['nprocesses']:
        tr.begin('mask_sift')
        tr.delay_rng = np.random.default_rng(case['delay_seed'] + npr)
        outs[npr] = S.mask_sift(xin.copy(), mask_amp=ma, mask_amp_mode=mode, mask_freqs=mf, mask_step_factor=step,
                                ret_mask_freq=True, max_imfs=cap, nphases=P, nprocesses=npr,
                                imf_opts=io, envelope_opts=eo, extrema_opts=xo)
        ctx.count('mask_sifts')
    imf, freqs = outs[case['nprocesses'][0]]
    # (a single-precision recording that its first extraction hands back unchanged yields a single-precision frequency estimate;
    # the library then forms 2*pi*z in that precision - the mask definition is judged to single precision in that case)
    single = np.asarray(freqs).dtype == np.float32
    if single:
        ctx.count('mask_sifts_with_single_precision_frequency')
    freqs = np.asarray(freqs, dtype=float)
    src = mf if isinstance(mf, str) else ('list' if isinstance(mf, (list, tuple)) else 'float')
    ctx.count('freq_source:' + src)
    ctx.count('amp_mode:' + mode)
    ctx.count('amp_array' if not np.isscalar(ma) else 'amp_scalar')
    # --- frequencies
    if src == 'list':
        want = np.asarray(mf, dtype=float)
        if not np.array_equal(freqs[:imf.shape[1]], want[:imf.shape[1]]):
            ctx.violation('mask-freqs:list', 'returned mask frequencies are not the user\'s list', case)
            return
    else:
        if src == 'float':
            z0 = mf
        else:
            # (the estimate is made from the recording in its own precision: a float32 recording that is handed back unchanged by the
            # first extraction stays float32)
            first, _ = S.get_next_imf(np.asarray(xin)[:, None].copy(), envelope_opts=eo, extrema_opts=xo, **io)
            if src == 'zc':
                nzc = int((np.diff(np.sign(first[:, 0])) != 0).sum())
                z0 = nzc / len(x) / 4
            else:
                _, IF, IA = spectra.frequency_transform(first, 1, 'nht', smooth_phase=3)
                z0 = np.average(IF, weights=IA)
        want = np.array([z0 / step ** i for i in range(len(freqs))])
        if len(freqs) < imf.shape[1] or not np.allclose(freqs, want, rtol=1e-12, atol=0):
            ctx.violation('mask-freqs:' + src, 'mask frequencies %s are not z0/step^i with z0=%.6g, step=%g'
                          % (np.round(freqs[:4], 5).tolist(), z0, step), case)
            return
    ctx.count('freq_ladders_checked')
    # --- columns, layer by layer from the spec
    for k in range(imf.shape[1]):
        resid = x - imf[:, :k].sum(axis=1)
        if mode == 'abs':
            sd = 1
        elif mode == 'ratio_sig' or k == 0:
            sd = xin.std()   # (std in the recording's own precision: for float32 input that is what "std of the signal" is)
        else:
            sd = imf[:, k - 1].std()
        a = (ma if np.isscalar(ma) else ma[k]) * sd
        if a == 0 and k > 0:
            ctx.count('zero_amplitude_layers_after_first')
        ref, _ = spec_masked_extraction(S, resid, freqs[k], a, P, io, eo, xo)
        err = np.abs(imf[:, k] - ref).max() / scale
        ctx.count('mask_sift_columns_checked')
        if err > (1e-10 if not single else 1e-5):
            ctx.violation('mask-sift-column:' + mode, 'column %d of mask_sift is not the specified masked extraction with '
                          'frequency %.4g and amplitude %.4g (%s): rel err %.3g' % (k, freqs[k], a, mode, err), case)
            return
        ctx.maxi('max_rel_err_mask_sift_column', err)
    for npr, (o, f) in outs.items():
        ctx.count('schedule_comparisons')
        if o.shape != imf.shape or not np.array_equal(o, imf) or not np.array_equal(np.asarray(f, float), freqs):
            ctx.violation('schedule-dependence', 'mask_sift with nprocesses=%d differs from nprocesses=%d' % (npr, case['nprocesses'][0]), case)
            return


def make_trace(ctx):
    from emd import sift as S
    tdir = os.path.join(WORK, 'C07', 'trace_%d' % ctx.shard)
    shutil.rmtree(tdir, ignore_errors=True)
    parent = os.getpid()

    def delay(stage, rec):
        # worker side only: seeded random 0-3 ms so that the job->worker assignment varies
        if os.getpid() != parent:
            r = getattr(tr, 'delay_rng', None)
            time.sleep(float(r.uniform(0, 0.003)) if r is not None else 0.001)
    tr = StageTrace(tdir, [(S, 'get_next_imf', 'gni')], pre_hook=delay)
    return tr, tdir


def thread_cases(seed):
    """Masked extractions / masked sifts of equally long channels with the same number of phases and different masks, from
    different threads at the same time (the pools are thread pools of this process while the probe runs)."""
    from emd import sift as S
    r = np.random.default_rng(seed)
    n = int(gens.pick(r, [300, 1000, 3000]))
    t = np.arange(n)
    nph = int(gens.pick(r, [1, 3, 4]))
    calls = []
    for k in range(4):
        ch = np.sin(2 * np.pi * t / float(r.uniform(8, 14))) + .5 * np.sin(2 * np.pi * t / float(r.uniform(40, 90))) + .2 * r.standard_normal(n)
        z, amp = float(r.uniform(.05, .4)), float(r.uniform(.3, 2))
        if k % 2:
            calls.append((lambda v, zz, aa: (lambda: S.get_next_imf_mask(v.copy()[:, None], zz, aa, nphases=nph)[0]))(ch, z, amp))
        else:
            calls.append((lambda v, zz: (lambda: S.mask_sift(v.copy(), max_imfs=2, mask_freqs=[zz, zz / 3], nphases=nph)))(ch, z))
    return calls, {'seed': int(seed), 'n': n, 'nphases': nph}


def thread_check(ctx, seed):
    calls, tcase = thread_cases(seed)
    with in_process_pools():
        return thread_probe(ctx, 'get_next_imf_mask/mask_sift (%d samples, %d phases)' % (tcase['n'], tcase['nphases']), calls, 6 if tcase['n'] > 1000 else 15, tcase)


def run_shard(ctx):
    if ctx.shard % 2 == 1:
        thread_check(ctx, int(ctx.rng.integers(1 << 30)))
    rng = ctx.rng
    n = NCASES[ctx.tier] // ctx.nshards
    tr, tdir = make_trace(ctx)
    with tr:
        if ctx.shard % 8 == 6:
            # one long recording per run (size-dependent code paths): 70 000 samples, several phases and workers
            big = gen_case(rng, 'gnim')
            big['x'] = gens.signal(rng, 'noise', int(rng.integers(68000, 75000))) + np.sin(np.arange(1) * 0)
            big['imf_opts'] = {'stop_method': 'fixed', 'max_iters': 2}
            big['envelope_opts'] = {'interp_method': 'splrep'}
            big['z'], big['nphases'], big['nprocesses'] = float(rng.uniform(.03, .2)), int(rng.integers(2, 5)), [1, int(rng.integers(2, 4))]
            big['amp'] = float(big['x'].std())
            try:
                with watchdog(300):
                    check_gnim(ctx, tr, big)
                ctx.count('very_long_recordings')
            except WatchdogTimeout:
                ctx.count('watchdog')
        for i in range(n):
            if ctx.out_of_time():
                break
            kind = 'gnim' if rng.random() < .7 else 'mask_sift'
            case = gen_case(rng, kind)
            try:
                with watchdog(120):
                    (check_gnim if kind == 'gnim' else check_mask_sift)(ctx, tr, case)
            except WatchdogTimeout:
                ctx.count('watchdog')
            except Exception as e:
                from emd.support import EMDSiftCovergeError
                if isinstance(e, EMDSiftCovergeError):
                    ctx.count('raised_convergence')
                else:
                    ctx.violation('exception:%s:%s' % (kind, type(e).__name__), '%s raised %s: %s' % (kind, type(e).__name__, str(e)[:120]), case)
            if i < 2:
                ctx.sample({k: (np.round(np.asarray(v).reshape(-1)[:5], 4) if isinstance(v, np.ndarray) else v) for k, v in case.items()})
    shutil.rmtree(tdir, ignore_errors=True)


def finalize(agg, tier):
    c, s = agg['counters'], agg['sets']
    r = []
    if len(s.get('worker_counts_seen', ())) < 3:
        r.append('only %d distinct worker counts observed' % len(s.get('worker_counts_seen', ())))
    if len(s.get('job_to_worker_maps', ())) < 5:
        r.append('only %d distinct job->worker assignment patterns observed' % len(s.get('job_to_worker_maps', ())))
    for k, need in [('masked_extractions', 200), ('mask_sift_columns_checked', 100), ('freq_ladders_checked', 30),
                    ('zero_amplitude_cases', 10), ('schedule_comparisons', 300)]:
        if c.get(k, 0) < need:
            r.append('%s: %d < %d' % (k, c.get(k, 0), need))
    for src in ['zc', 'if', 'float', 'list']:
        if c.get('freq_source:' + src, 0) < 3:
            r.append('mask frequency source %s used < 3 times' % src)
    return r


def replay(ctx, case):
    if case.get('kind') == 'threads':
        for _ in range(5):
            if not thread_check(ctx, case['seed']):
                break
        return
    tr, tdir = make_trace(ctx)
    with tr:
        (check_gnim if case['kind'] == 'gnim' else check_mask_sift)(ctx, tr, case)
    shutil.rmtree(tdir, ignore_errors=True)
