"""C06 - every sift option takes effect at the stage it configures, in every variant.

Oracle: a trace specification checked offline over per-process event logs. Recording wrappers on
get_next_imf / interp_envelope / get_padded_extrema (installed before the pools fork, so worker
processes run them too) log the *effective keyword arguments at the stage boundary*. For a
top-level call that was given option groups I (imf), E (envelope), X (extrema):
   every get_next_imf event      has kwargs >= I, envelope_opts == E, extrema_opts == X
   every interp_envelope event   (inside an extraction) has kwargs >= E, extrema_opts == X
   every get_padded_extrema event (inside an envelope)  has kwargs >= X
in every process that took part."""
import json
import os
import shutil
import subprocess
import sys

import numpy as np

from .. import gens
from ..harness import WORK, VERIF, REPO, watchdog, WatchdogTimeout, digest, jsonable
from ..refmodels import ref_envelope_opts
from ..monitors import StageTrace

MANIFEST = {
    'text': 'Held on every stage event recorded: each of the six sift variants (mask_sift with all four mask-frequency sources) and the public helpers get_next_imf_mask / get_mask_freqs is called with non-default option groups delivered by keyword dicts, by SiftConfig unpacking and by the get_func partial, with 1-3 worker processes; every get_next_imf / interp_envelope / get_padded_extrema call made in any process on behalf of the call is logged with its effective keyword arguments and checked against the supplied options. The grid (variant x option sets x route x nprocesses) is enumerated completely in the thorough tier and sampled in the quick tier; the run is inconclusive unless every (variant, route) cell produced events and multi-process calls produced events from >= 2 worker pids. A quarter of the shards run in a session that turns Deprecation/Future/UserWarnings into errors.',
    'note': 'Trusted: the wrappers see exactly what the callee receives (functools.wraps closures on module attributes; fork start method asserted). Location padding is kept at odd reflection (other np.pad modes cannot reach below 0, an input-validity matter).',
    'technique': 'offline trace-specification checker over per-process event logs written by recording wrappers on the real stage functions (incl. forked workers)',
}
SESSION_NOISE = True      # every shard starts after unrelated session activity (harness.session_noise)
BUDGET_S = {'quick': 75, 'thorough': 480}
RULE = ('grid variant x imf option set (5, one with an energy threshold, one with a tight iteration budget) x interpolation (2) x extrema option set (4) x delivery route (keyword dicts, '
        '**SiftConfig, get_func partial, **SiftConfig read back from YAML, **SiftConfig started empty and filled by key paths) x nprocesses (1,2,3) x 3 signals; quick = seeded sample of the grid with every '
        '(variant, route) cell forced, thorough = whole grid; non-trivial = the call produced stage events of all three '
        'stages; distinct by grid cell')
EXHAUSTIVE = {'quick': False, 'thorough': True}
EXHAUSTIVE_SCOPE = {'thorough': 'the full grid named in rule (4760 cells incl. the two stage-level helpers) x 3 signals'}
ASSUMPTIONS = ['extrema events issued outside a traced envelope call (amplitude estimation inside the instantaneous-frequency mask estimate) are not sift stages and are ignored']

IMF = [{'stop_method': 'rilling', 'rilling_thresh': (0.1, 0.8, 0.1), 'env_step_size': .5},
       {'stop_method': 'fixed', 'max_iters': 3},
       {'stop_method': 'sd', 'sd_thresh': .05, 'env_step_size': .3},
       {'stop_method': 'sd', 'sd_thresh': .1, 'energy_thresh': 5},
       # a tight iteration budget: some extractions (of some noise realisations) exceed it and the call raises - on that path,
       # too, no supplied option may be replaced by a default
       {'stop_method': 'sd', 'sd_thresh': 2e-3, 'max_iters': 12}]
ENV = [{'interp_method': 'pchip'}, {'interp_method': 'mono_pchip'}]
EXT = [{'pad_width': 3}, {'pad_width': 1, 'parabolic_extrema': True},
       {'pad_width': 2, 'mag_pad_opts': {'mode': 'mean', 'stat_length': 2}},
       {'pad_width': 2, 'mag_pad_opts': {'mode': 'mean'}}]      # a complete np.pad keyword set that has no stat_length
VARIANTS = ['sift', 'mask_sift:zc', 'mask_sift:if', 'mask_sift:float', 'mask_sift:list', 'ensemble_sift',
            'complete_ensemble_sift', 'sift_second_layer', 'mask_sift_second_layer', 'get_next_imf_mask', 'get_mask_freqs']
ROUTES = ['kw', 'cfg', 'func', 'yaml', 'mincfg']     # yaml: the configuration object written to YAML text, read back, then unpacked;
# mincfg: a configuration object started with empty option groups and filled through 'group/option' keys only
NPROC = [1, 2, 3]


def grid():
    cells = []
    for v in VARIANTS:
        for r in ROUTES:
            for npr in NPROC:
                if v in ('sift', 'sift_second_layer', 'get_mask_freqs') and npr > 1:
                    continue
                if v in ('get_next_imf_mask', 'get_mask_freqs') and r != 'kw':
                    continue   # stage-level helpers take keyword dicts only
                for i in range(len(IMF)):
                    for e in range(len(ENV)):
                        for x in range(len(EXT)):
                            cells.append((v, r, npr, i, e, x))
    return cells


def norm(v):
    if isinstance(v, dict):
        if '__tuple__' in v:
            return [norm(a) for a in v['__tuple__']]
        return {k: norm(a) for k, a in v.items()}
    if isinstance(v, (list, tuple)):
        return [norm(a) for a in v]
    if isinstance(v, (np.floating, float)):
        return float(v)
    if isinstance(v, (np.integer,)):
        return int(v)
    return v


def judge(events, I, E, X):
    """Returns a list of (stage, group, detail, pid) for events violating the trace specification."""
    I, E, X = norm(jsonable(I)), norm(jsonable(E)), norm(jsonable(X))
    bad = []
    for ev in events:
        kw = norm(ev.get('kw', {}))
        st = ev['stage']
        if st == 'gni':
            for k, v in I.items():
                if k not in kw or kw[k] != v:
                    bad.append((st, 'imf_opts', '%s=%r seen, %r supplied' % (k, kw.get(k, '<absent>'), v), ev['pid']))
                    break
            if kw.get('envelope_opts') != E:
                bad.append((st, 'envelope_opts', 'envelope_opts=%r seen, %r supplied' % (kw.get('envelope_opts'), E), ev['pid']))
            if kw.get('extrema_opts') != X:
                bad.append((st, 'extrema_opts', 'extrema_opts=%r seen, %r supplied' % (kw.get('extrema_opts'), X), ev['pid']))
        elif st == 'env' and ev.get('parent') == 'gni':
            for k, v in E.items():
                if k not in kw or kw[k] != v:
                    bad.append((st, 'envelope_opts', '%s=%r seen, %r supplied' % (k, kw.get(k, '<absent>'), v), ev['pid']))
                    break
            if kw.get('extrema_opts') != X:
                bad.append((st, 'extrema_opts', 'extrema_opts=%r seen, %r supplied' % (kw.get('extrema_opts'), X), ev['pid']))
        elif st == 'ext' and ev.get('parent') == 'env' and ev.get('depth', 0) >= 2:
            for k, v in X.items():
                if k not in kw or kw[k] != v:
                    bad.append((st, 'extrema_opts', '%s=%r seen, %r supplied' % (k, kw.get(k, '<absent>'), v), ev['pid']))
                    break
    return bad


def make_signal(k, n=128):
    rng = np.random.default_rng(1000 + k)
    t = np.arange(n)
    return (np.sin(2 * np.pi * t / (9 + k)) + .6 * np.sin(2 * np.pi * t / (31 + 3 * k)) + .3 * rng.standard_normal(n)
            + t / n)


def run_cell(ctx, tr, cell, sigk):
    from emd import sift as S
    from emd.support import EMDSiftCovergeError
    v, route, npr, i, e, xi = cell
    I, E, X = dict(IMF[i]), dict(ENV[e]), dict(EXT[xi])
    if 'mag_pad_opts' in X:
        X['mag_pad_opts'] = dict(X['mag_pad_opts'])
    x = make_signal(sigk)
    name = v.split(':')[0]
    extra = {}
    if name == 'mask_sift':
        src = v.split(':')[1]
        extra['mask_freqs'] = {'zc': 'zc', 'if': 'if', 'float': 0.21, 'list': [0.3, 0.12, 0.05]}[src]
        extra['max_imfs'] = 3
        extra['nprocesses'] = npr
        extra['nphases'] = 3
    elif name in ('ensemble_sift', 'complete_ensemble_sift'):
        extra.update(nensembles=3, nprocesses=npr, max_imfs=2, ensemble_noise=.1,
                     noise_mode=['single', 'flip'][(i + e + xi + npr + sigk) % 2])
        ctx.count('noise_mode:' + extra['noise_mode'])
    elif name == 'sift':
        extra['max_imfs'] = 3
    case = {'kind': 'cell', 'cell': list(cell), 'signal': sigk}

    second = name in ('sift_second_layer', 'mask_sift_second_layer')
    if second:
        IA = np.abs(S.sift(x, max_imfs=2)) + 1
    helper = name in ('get_next_imf_mask', 'get_mask_freqs')
    # assemble the call per route
    if route == 'kw' or (second and route == 'func'):
        opts = dict(imf_opts=I, envelope_opts=E, extrema_opts=X)
        wantI, wantE, wantX = I, E, X
        cfg = None
    else:
        cfgname = 'mask_sift' if name == 'mask_sift_second_layer' else ('sift' if name == 'sift_second_layer' else name)
        cfg = S.get_config(cfgname) if route != 'mincfg' else S.SiftConfig(cfgname, imf_opts={}, envelope_opts={}, extrema_opts={})
        for k, val in I.items():
            cfg['imf_opts/' + k] = val
        for k, val in E.items():
            cfg['envelope_opts/' + k] = val
        for k, val in X.items():
            cfg['extrema_opts/' + k] = val
        wantI, wantE, wantX = dict(cfg['imf_opts']), dict(cfg['envelope_opts']), dict(cfg['extrema_opts'])
        if 'mag_pad_opts' in X:
            wantX['mag_pad_opts'] = dict(X['mag_pad_opts'])
        if route == 'mincfg':
            wantI, wantE, wantX = dict(I), dict(E), {k: (dict(v) if isinstance(v, dict) else v) for k, v in X.items()}
        if route == 'yaml':
            cfg = S.SiftConfig.from_yaml_stream(cfg.to_yaml_text())

    np.random.seed(12345)
    ret = None
    tr.begin('%s|%s|%d|%d%d%d' % (v, route, npr, i, e, xi))
    try:
        with watchdog(120):
            if second:
                if cfg is None:
                    sa = dict(opts, max_imfs=2)
                else:
                    sa = dict(cfg)
                    sa['max_imfs'] = 2
                    sa.pop('verbose', None)
                if name == 'sift_second_layer' and route == 'func':
                    # options split over two delivery routes: a default-config partial as sift_func, the supplied options in
                    # sift_args (call-time keywords win over the partial's, as functools.partial defines)
                    S.sift_second_layer(IA, sift_func=S.get_config('sift').get_func(), sift_args=sa)
                    ctx.count('second_layer_with_partial_sift_func')
                elif name == 'sift_second_layer':
                    S.sift_second_layer(IA, sift_args=sa)
                else:
                    sa.pop('mask_freqs', None)
                    sa['nprocesses'] = npr
                    sa['nphases'] = 3
                    S.mask_sift_second_layer(IA, [0.2, 0.08, 0.03, 0.01], sift_args=sa)
            elif name == 'get_next_imf_mask':
                S.get_next_imf_mask(x, 0.21, 0.6, nphases=3, nprocesses=npr, **opts)
            elif name == 'get_mask_freqs':
                S.get_mask_freqs(x[:, None], ['zc', 'if'][(i + e + xi) % 2], **opts)
            else:
                func = getattr(S, name)
                if name == 'mask_sift':
                    extra['ret_mask_freq'] = True
                if cfg is None:
                    ret = func(x, **extra, **opts)
                else:
                    for k, val in extra.items():
                        cfg[k] = val
                    if route in ('cfg', 'yaml', 'mincfg'):
                        ret = func(x, **cfg)
                    else:
                        ret = cfg.get_func()(x)
    except EMDSiftCovergeError:
        # a documented outcome (only the tight-budget option set produces it): the stage events issued up to here are judged
        ctx.count('calls_ending_in_a_convergence_error')
        ret = None
    except WatchdogTimeout:
        ctx.count('watchdog')
        ctx.case(digest(cell), False)
        return
    except Exception as ex:
        ctx.case(digest(cell), False)
        ctx.violation('exception:%s:%s' % (name, type(ex).__name__), '%s via route %s raised %s: %s'
                      % (v, route, type(ex).__name__, str(ex)[:120]), case)
        return
    events = tr.collect()
    stages = set(ev['stage'] for ev in events)
    pids = set(ev['pid'] for ev in events)
    workers = pids - {os.getpid()}
    ctx.case(digest(cell, sigk), stages >= {'gni', 'env', 'ext'})
    ctx.count('top_level_calls')
    ctx.count('stage_events', len(events))
    ctx.count('cell:%s:%s' % (name, route))
    ctx.add('variants_x_routes', '%s/%s' % (v, route))
    ctx.maxi('max_worker_pids_in_one_call', len(workers))
    if npr > 1:
        ctx.count('multiproc_calls')
        if len(workers) >= 2:
            ctx.count('multiproc_calls_with_2+_worker_pids')
    if name not in ('sift', 'sift_second_layer', 'get_mask_freqs') and not workers:
        ctx.count('pool_variant_without_worker_events')
    if not stages >= {'gni', 'env', 'ext'}:
        ctx.count('calls_missing_a_stage')
    # second oracle (output level): the first mask frequency must be the one estimated from the first IMF extracted
    # WITH the supplied options (a stale or default-option estimate leaves the stage events of the masked sifts intact)
    if name == 'mask_sift' and v.split(':')[1] in ('zc', 'if') and isinstance(ret, tuple):
        from emd import spectra as SP
        first, _ = S.get_next_imf(x[:, None], envelope_opts=wantE, extrema_opts=wantX, **wantI)
        if v.endswith('zc'):
            z0 = int((np.diff(np.sign(first[:, 0])) != 0).sum()) / len(x) / 4
        else:
            _, IF, IA = SP.frequency_transform(first, 1, 'nht', smooth_phase=3)
            z0 = np.average(IF, weights=IA)
        ctx.count('first_mask_frequency_checks')
        if abs(ret[1][0] - z0) > 1e-12 * max(abs(z0), 1e-12):
            ctx.violation('first-mask-frequency:%s' % v.split(':')[1], '%s (route %s): first mask frequency %.6g is not the estimate %.6g obtained from '
                          'the first IMF extracted with the supplied options' % (v, route, ret[1][0], z0), case)
    # third oracle: the deterministic variants equal the pipeline assembled explicitly from the stage functions with the
    # same options (column by column until the stage reports that nothing is left, the cap or the sift threshold)
    if name in ('sift', 'mask_sift') and ret is not None:
        out = ret[0] if isinstance(ret, tuple) else ret
        cap = extra.get('max_imfs', 3)
        cols = []
        for layer in range(cap):
            resid = (x - np.sum(cols, axis=0)) if cols else x
            if name == 'sift':
                col, flag = S.get_next_imf(resid[:, None], envelope_opts=wantE, extrema_opts=wantX, **wantI)
            else:
                sd = x.std() if layer == 0 else cols[-1].std()
                col, flag = S.get_next_imf_mask(resid[:, None], ret[1][layer], 1 * sd, nphases=3, nprocesses=1,
                                                imf_opts=wantI, envelope_opts=wantE, extrema_opts=wantX)
            cols.append(col[:, 0])
            if not flag or np.abs(col).sum() < 1e-8:
                break
        ref = np.array(cols).T
        ctx.count('explicit_pipeline_comparisons')
        if 'energy_thresh' in wantI and wantI['energy_thresh'] is not None and ref.shape[1] < cap:
            ctx.count('explicit_pipelines_stopped_by_energy_threshold')
        if out.shape != ref.shape or np.abs(out - ref).max() > 1e-10 * np.abs(x).max():
            ctx.violation('explicit-pipeline:%s' % name, '%s (route %s) returned %s, the pipeline assembled from the stage functions with the same '
                          'options gives %s (max diff %s)' % (v, route, out.shape, ref.shape,
                                                            np.abs(out - ref).max() if out.shape == ref.shape else 'n/a'), case)
    bad = judge(events, wantI, wantE, wantX)
    if bad:
        seen = set()
        for st, group, detail, pid in bad:
            where = 'worker' if pid != os.getpid() else 'parent'
            key = 'dropped:%s:%s:%s' % (v.split(':')[0] + (':' + v.split(':')[1] if ':' in v and st == 'gni' and False else ''), st, group)
            if key in seen:
                continue
            seen.add(key)
            ctx.violation(key, '%s (route %s, nprocesses %d): a %s call in a %s process did not receive the supplied %s: %s '
                          '(%d offending of %d events)' % (v, route, npr, {'gni': 'get_next_imf', 'env': 'interp_envelope',
                                                                             'ext': 'get_padded_extrema'}[st], where, group,
                                                          detail[:160], len(bad), len(events)), case)
    else:
        ctx.count('calls_conforming')
    return events


# extrema option sets for the leaf-level oracle (np.pad modes that are not symmetric under a change of sign included)
EXT_LEAF = EXT + [{'pad_width': 2, 'mag_pad_opts': {'mode': 'maximum', 'stat_length': 3}},
                  {'pad_width': 3, 'mag_pad_opts': {'mode': 'minimum', 'stat_length': 2}},
                  {'pad_width': 2, 'mag_pad_opts': {'mode': 'constant', 'constant_values': .5}},
                  {'pad_width': 2, 'mag_pad_opts': {'mode': 'linear_ramp', 'end_values': 1.5}},
                  {'pad_width': 4, 'mag_pad_opts': {'mode': 'median', 'stat_length': 3}, 'loc_pad_opts': {'mode': 'reflect', 'reflect_type': 'odd'}},
                  {'pad_width': 1, 'parabolic_extrema': True, 'mag_pad_opts': {'mode': 'maximum', 'stat_length': 2}}]


def leaf_checks(ctx, rng):
    """Fourth oracle (leaf level): what the envelope stage computes from the supplied options equals an envelope built from first
    principles (own extrema, np.pad with the supplied options applied to the extrema magnitudes as they are, scipy interpolant).
    The trace specification shows that options ARRIVE at the stage; this shows that they GOVERN it."""
    from emd import sift as S
    for xi, X in enumerate(EXT_LEAF):
        for k in range(3):
            x = make_signal(k) * float(gens.pick(rng, [1, 1, -1, 3.5])) + float(gens.pick(rng, [0, 0, 2, -1]))
            for E in ENV + [{'interp_method': 'splrep'}]:
                for mode in ('upper', 'lower', 'combined'):
                    case = {'kind': 'leaf', 'x': x, 'extrema_opts': X, 'envelope_opts': E, 'mode': mode}
                    ctx.case(digest(x, X, E, mode), True)
                    try:
                        got = S.interp_envelope(x.copy(), mode=mode, **E, extrema_opts={kk: (dict(v) if isinstance(v, dict) else v) for kk, v in X.items()})
                        ref = ref_envelope_opts(x, mode, E['interp_method'], **X)
                    except Exception as ex:
                        ctx.violation('leaf-exception:%s' % type(ex).__name__, 'interp_envelope(mode=%s, %s, extrema_opts=%s) raised %s: %s'
                                      % (mode, E, X, type(ex).__name__, str(ex)[:100]), case)
                        continue
                    ctx.count('leaf_envelope_comparisons')
                    if (got is None) != (ref is None) or (got is not None and np.abs(np.asarray(got).reshape(-1) - ref).max() > 1e-9 * np.abs(x).max()):
                        ctx.violation('leaf-envelope:%s:%s' % (mode, X.get('mag_pad_opts', {}).get('mode', 'default')),
                                      'interp_envelope(mode=%s, %s, extrema_opts=%s) differs from the envelope built from first principles with the '
                                      'same options (max diff %s)' % (mode, E, X, 'n/a' if got is None or ref is None else
                                                                      '%.3g' % np.abs(np.asarray(got).reshape(-1) - ref).max()), case)


def energy_option_leaf(ctx, rng):
    """Leaf level for an option whose effect is a termination: the energy threshold has to be applied on EVERY way out of the
    single-IMF extraction, also when the extrema run out after a few mean removals. Judged by C04's iterate model (imported: the
    reference is independent of the library's own stage functions) on short records built to leave the extraction that way."""
    from . import C04
    for _ in range(160):
        n = int(rng.integers(40, 91))
        t = np.arange(n)
        x = (np.sin(2 * np.pi * t / float(rng.uniform(25, 70)) + float(rng.uniform(0, 6))) * float(rng.uniform(.5, 2))
             + float(rng.uniform(.05, .4)) * np.exp(-((t - float(rng.uniform(5, n - 5))) / float(rng.uniform(1.5, 4))) ** 2) * float(gens.pick(rng, [-1, 1]))
             + float(rng.uniform(-1, 1)) * t / n)
        case = {'kind': 'gni', 'family': 'swell+bump+trend', 'x': x,
                'opts': {'stop_method': 'sd', 'sd_thresh': float(gens.pick(rng, [.05, .1, .3])), 'env_step_size': 1.0, 'max_iters': 1000,
                         'energy_thresh': float(gens.pick(rng, [3, 5, 10]))},
                'envelope_opts': {'interp_method': 'splrep'}, 'extrema_opts': {'pad_width': 2}, 'presentation': 'plain'}
        cls = C04.check_case(ctx, case)
        ctx.count('energy_option_leaf_cases')
        if cls == 'noext@k>1':
            ctx.count('energy_option_leaf_cases_where_extrema_ran_out')


def variant_call(S, name, route, I, E, X, x, npr):
    """A zero-noise / deterministic call of one variant with the options delivered by one route."""
    extra = dict(max_imfs=2)
    if name == 'mask_sift':
        extra.update(mask_freqs=[0.3, 0.12], nphases=3, nprocesses=npr)
    else:
        extra.update(nensembles=3, nprocesses=npr, ensemble_noise=0.0)
    if route == 'kw':
        out = getattr(S, name)(x, imf_opts=dict(I), envelope_opts=dict(E), extrema_opts=dict(X), **extra)
    else:
        cfg = S.get_config(name)
        for grp, d in (('imf_opts', I), ('envelope_opts', E), ('extrema_opts', X)):
            for k, v in d.items():
                cfg[grp + '/' + k] = v
        for k, v in extra.items():
            cfg[k] = v
        out = getattr(S, name)(x, **cfg) if route == 'cfg' else cfg.get_func()(x)
    return out[0] if isinstance(out, tuple) else out


def start_method_probe(ctx, rng, method):
    """"... on any code path, including worker processes": the same calls in an interpreter whose worker processes are started by
    `spawn` / `forkserver` (they import the library afresh instead of inheriting the parent's memory). Recording wrappers do not
    exist in such workers, so this is judged on outputs: the zero-noise ensemble sift must equal the classic sift with the same
    options, the zero-noise complete ensemble and the masked sift must equal the result obtained here."""
    from emd import sift as S
    jobs = []
    for _ in range(6):
        jobs.append({'name': gens.pick(rng, ['ensemble_sift', 'complete_ensemble_sift', 'mask_sift']), 'route': gens.pick(rng, ROUTES),
                     'i': int(rng.integers(3)), 'e': int(rng.integers(len(ENV))), 'x': int(rng.integers(len(EXT))), 'sig': int(rng.integers(3)), 'npr': int(rng.integers(1, 4))})
    if _FORCED_JOBS:
        jobs = _FORCED_JOBS
    env = dict(os.environ, EMD_REPO=REPO, PYTHONPATH=VERIF)
    case = {'kind': 'start_method', 'method': method, 'jobs': jobs}
    try:
        p = subprocess.run([sys.executable, '-W', 'ignore', '-m', 'emdverif.props.C06', method, json.dumps(jobs)], capture_output=True, text=True,
                           timeout=600, env=env, cwd=VERIF)
        res = json.loads([l for l in p.stdout.splitlines() if l.startswith('OUT ')][-1][4:])
    except Exception as ex:
        ctx.count('start_method_probe_failed')
        ctx.note('start-method probe (%s) failed: %s' % (method, str(ex)[:200]))
        return
    for j, r in zip(jobs, res):
        I, E, X, x = dict(IMF[j['i']]), ENV[j['e']], EXT[j['x']], make_signal(j['sig'])
        ctx.case(digest(method, j), True)
        if isinstance(r, str):
            ctx.violation('start-method-exception:%s' % j['name'], '%s via route %s raised %s when worker processes are started by %s'
                          % (j['name'], j['route'], r, method), case)
            continue
        got = np.array(r)
        if j['name'] in ('mask_sift', 'complete_ensemble_sift'):
            # (deterministic calls: the reference is the same call made here, where the trace specification is checked;
            # a zero-noise complete ensemble is not the classic sift beyond its first component)
            ref = variant_call(S, j['name'], 'kw', I, E, X, x, 1)
        else:
            ref = S.sift(x, max_imfs=2, imf_opts=I, envelope_opts=E, extrema_opts=X)
        dflt = S.sift(x, max_imfs=2) if j['name'] != 'mask_sift' else S.mask_sift(x, max_imfs=2, mask_freqs=[0.3, 0.12], nphases=3)
        k = min(got.shape[1], ref.shape[1])
        ctx.count('start_method_comparisons:' + method)
        if dflt.shape != ref.shape or np.abs(dflt - ref).max() > 1e-3:
            ctx.count('start_method_comparisons_where_options_matter')
        if np.abs(got[:, :k] - ref[:, :k]).max() > 1e-9 * np.abs(x).max():
            ctx.violation('start-method:%s' % j['name'], '%s via route %s, nprocesses=%d, worker processes started by %s: the result differs from '
                          'the one obtained with the supplied options (max diff %.3g; distance to the all-defaults result %.3g)'
                          % (j['name'], j['route'], j['npr'], method, np.abs(got[:, :k] - ref[:, :k]).max(),
                             np.abs(got[:, :k] - dflt[:, :k]).max() if dflt.shape[0] == got.shape[0] else float('nan')), case)


def _replay_start_method(ctx, case):
    # run the probe on the recorded job list
    global _FORCED_JOBS
    _FORCED_JOBS = case['jobs']
    try:
        start_method_probe(ctx, np.random.default_rng(0), case['method'])
    finally:
        _FORCED_JOBS = None


_FORCED_JOBS = None


def run_shard(ctx):
    from emd import sift as S
    cells = grid()
    if ctx.shard % 4 == 0:
        leaf_checks(ctx, ctx.rng)
    if ctx.shard % 4 == 1:
        energy_option_leaf(ctx, ctx.rng)
    if ctx.shard % 4 == 2:
        start_method_probe(ctx, ctx.rng, 'spawn' if ctx.shard % 8 == 2 else 'forkserver')
    tdir = os.path.join(WORK, 'C06', 'trace_%d' % ctx.shard)
    shutil.rmtree(tdir, ignore_errors=True)
    targets = [(S, 'get_next_imf', 'gni'), (S, 'interp_envelope', 'env'), (S, 'get_padded_extrema', 'ext')]
    if ctx.tier == 'quick':
        # force one cell per (variant, route), then a seeded sample
        rng = np.random.default_rng(ctx.seed)
        forced = {}
        order = rng.permutation(len(cells))
        for j in order:
            c = cells[j]
            forced.setdefault((c[0], c[1], min(c[2], 2)), c)
        chosen = list(forced.values())
        rest = [cells[j] for j in order if cells[j] not in chosen][:600 - len(chosen)]
        todo = chosen + rest
        todo = [(c, None) for c in todo]
    else:
        todo = [(c, sk) for c in cells for sk in range(3)]
    mine = [c for k, c in enumerate(todo) if k % ctx.nshards == ctx.shard]
    if ctx.shard % 2 == 1:
        # the emd logger is process-global state that earlier steps of a session may have left behind: half of the
        # shards run every call with the logger set up (which switches the 'emd' logger itself to DEBUG)
        import sys
        import emd

        class _Null:
            def write(self, s_):
                return len(s_)

            def flush(self):
                pass
        old_stdout = sys.stdout
        sys.stdout = _Null()
        try:
            emd.logger.set_up(level='CRITICAL')
        finally:
            sys.stdout = old_stdout
        ctx.count('shards_with_logger_set_up')
    with StageTrace(tdir, targets) as tr:
        for k, (cell, sk) in enumerate(mine):
            if ctx.out_of_time():
                break
            ev = run_cell(ctx, tr, cell, (k + ctx.shard) % 3 if sk is None else sk)
            if k == 0 and ev:
                ctx.sample({'cell': list(cell), 'first_events': [{kk: e[kk] for kk in ('stage', 'pid', 'parent', 'kw')} for e in ev[:3]]})
    shutil.rmtree(tdir, ignore_errors=True)
    ctx.count('cells_planned', len(mine))


def finalize(agg, tier):
    c = agg['counters']
    r = []
    names = sorted(set(v.split(':')[0] for v in VARIANTS))
    for n in names:
        for rt in ROUTES:
            if n in ('get_next_imf_mask', 'get_mask_freqs') and rt != 'kw':
                continue
            if c.get('cell:%s:%s' % (n, rt), 0) < 1:
                r.append('no call for variant %s via route %s' % (n, rt))
    for k, need in [('leaf_envelope_comparisons', 500), ('start_method_comparisons:spawn', 6), ('start_method_comparisons:forkserver', 6),
                    ('start_method_comparisons_where_options_matter', 6)]:
        if c.get(k, 0) < need:
            r.append('%s: %d < %d' % (k, c.get(k, 0), need))
    if c.get('multiproc_calls_with_2+_worker_pids', 0) < 10:
        r.append('only %d multi-process calls showed events from >= 2 worker pids' % c.get('multiproc_calls_with_2+_worker_pids', 0))
    if c.get('calls_missing_a_stage', 0) > 0.05 * max(c.get('top_level_calls', 1), 1):
        r.append('%d calls produced no events for some stage' % c.get('calls_missing_a_stage', 0))
    if c.get('top_level_calls', 0) < c.get('cells_planned', 0) * 0.9:
        r.append('fewer than 90%% of the planned cells were run (%d of %d)' % (c.get('top_level_calls', 0), c.get('cells_planned', 0)))
    return r


def replay(ctx, case):
    from emd import sift as S
    if case['kind'] == 'leaf':
        got = S.interp_envelope(np.asarray(case['x'], float), mode=case['mode'], **case['envelope_opts'], extrema_opts=case['extrema_opts'])
        ref = ref_envelope_opts(case['x'], case['mode'], case['envelope_opts']['interp_method'], **case['extrema_opts'])
        if (got is None) != (ref is None) or (got is not None and np.abs(np.asarray(got).reshape(-1) - ref).max() > 1e-9 * np.abs(case['x']).max()):
            ctx.violation('leaf-envelope:%s:%s' % (case['mode'], case['extrema_opts'].get('mag_pad_opts', {}).get('mode', 'default')), 'replayed leaf difference', case)
        return
    if case['kind'] == 'start_method':
        return _replay_start_method(ctx, case)
    tdir = os.path.join(WORK, 'C06', 'trace_replay')
    targets = [(S, 'get_next_imf', 'gni'), (S, 'interp_envelope', 'env'), (S, 'get_padded_extrema', 'ext')]
    with StageTrace(tdir, targets) as tr:
        run_cell(ctx, tr, tuple(case['cell']), case['signal'])
    shutil.rmtree(tdir, ignore_errors=True)


if __name__ == '__main__':
    # the fresh-interpreter side of start_method_probe
    import multiprocessing as mp
    mp.set_start_method(sys.argv[1])
    from emdverif.harness import bootstrap
    bootstrap(require_fork=False)
    from emd import sift as S_
    res = []
    for j in json.loads(sys.argv[2]):
        try:
            out = variant_call(S_, j['name'], j['route'], dict(IMF[j['i']]), ENV[j['e']], EXT[j['x']], make_signal(j['sig']), j['npr'])
            res.append(np.asarray(out).tolist())
        except Exception as ex:
            res.append('%s: %s' % (type(ex).__name__, str(ex)[:100]))
    print('OUT ' + json.dumps(res))
