"""C20 - logging never changes results and verbosity overrides are temporary.

History exploration with a model + invariant at a hook: an operation alphabet over the emd logger
{set_up(level None/WARNING/DEBUG), set_up(log_file), set_level x4, disable, enable, sift-variant call
with verbose in {None, CRITICAL, WARNING, INFO, DEBUG} that returns, the same call on an (n,2,3)
array so that it raises inside the decorated function}. A model tracks (set-up?, console level).
After every step get_level() must equal the model's level, a returning call must be array_equal to
the baseline computed before any logger existed, a raising call must raise the *input* error and
leave the level unchanged. Logger state is reset between histories; the fidelity of that reset is
itself checked by replaying sampled histories in fresh interpreters."""
import json
import logging
import os
import subprocess
import sys
import itertools

import numpy as np

from .. import gens
from ..harness import WORK, VERIF, REPO, digest

MANIFEST = {
    'text': 'Held on every history executed: ALL histories of depth 3 (quick) / 4 (thorough) over a 20-operation alphabet, from both the never-set-up and the set-up start state, plus seeded random histories of length <= 12 that also call mask_sift, ensemble_sift and complete_ensemble_sift, are run against the real emd.logger and the decorated sift variants; after every step emd.logger.get_level() must equal a two-variable model, every returning call must reproduce the no-logger baseline bit-for-bit, every call made to fail must raise its input error (never a logging error) and leave the level unchanged, and the set of emd handlers must be unchanged by a decorated call. Sampled histories are re-run in fresh interpreters to validate the in-process logger reset (a mismatch makes the run inconclusive). Exhaustive at the stated depth, sampling beyond. A quarter of the shards run in a session that turns Deprecation/Future/UserWarnings into errors.',
    'note': 'Trusted: the stdlib logging module. In-process histories run with stdout replaced by a null sink; what reaches file descriptor 1 is observed in fresh interpreters whose stdout is a file under /verif/.work; log files go to /verif/.work.',
    'technique': 'exhaustive bounded history exploration against a state model, with the level-restore invariant asserted after every decorated call',
}
BUDGET_S = {'quick': 70, 'thorough': 480}
DEPTH = {'quick': 3, 'thorough': 4}
NRANDOM = {'quick': 640, 'thorough': 8000}
NFRESH = {'quick': 2, 'thorough': 8}
EXHAUSTIVE = {'quick': True, 'thorough': True}
EXHAUSTIVE_SCOPE = {'quick': 'every operation sequence of length 3 over the 20-operation alphabet x 2 start states (16000 histories)',
                    'thorough': 'every operation sequence of length 4 over the 20-operation alphabet x 2 start states (320000 histories)'}
RULE = ('exhaustive enumeration of operation sequences to the stated depth from both start states, then seeded random histories '
        '(length 4..12, all four decorated variants); non-trivial = the history contains a decorated call with a verbosity '
        'override; distinct by (start state, operation sequence)')
ASSUMPTIONS = ['levels are compared as the numeric level of the console handler, None before set_up']

LEVELS = {'CRITICAL': 50, 'ERROR': 40, 'WARNING': 30, 'INFO': 20, 'DEBUG': 10}
OPS = (['su:None', 'su:WARNING', 'su:DEBUG', 'su:file'] + ['sl:' + l for l in ('CRITICAL', 'WARNING', 'INFO', 'DEBUG')] + ['disable', 'enable']
       + ['call:' + v for v in ['None', 'CRITICAL', 'WARNING', 'INFO', 'DEBUG']]
       + ['raise:' + v for v in ['None', 'CRITICAL', 'WARNING', 'INFO', 'DEBUG']])
# operations used only by the random histories (the enumerated alphabet stays at the 20 operations of the design): a level
# outside the four documented names ("any level"), and the override handed over by position instead of by keyword
EXTRA_OPS = ['sl:ERROR', 'su:ERROR', 'callpos:CRITICAL', 'callpos:DEBUG', 'callpos:WARNING', 'raisepos:INFO', 'raisepos:CRITICAL',
             'callkw:None', 'callkw:CRITICAL', 'callkw:INFO', 'callkw:DEBUG']
# (callkw: the data handed over by keyword, X=x. Whatever such a call does - return or fail - it must do in every logger state.)


INNER_ERRSTATES = []
_REAL = {}


def _gni_spy(*a, **k):
    """Recording wrapper on emd.sift.get_next_imf (module level: the masked sift pickles it into its worker pool)."""
    INNER_ERRSTATES.append(tuple(sorted(np.geterr().items())))
    return _REAL['gni'](*a, **k)


_gni_spy._emdverif_spy = True


class NullOut:
    def write(self, s):
        return len(s)

    def flush(self):
        pass


class World:
    """The real logger + a tiny workload, with pristine-state snapshot / restore."""

    def __init__(self, logfile):
        import emd
        self.emd = emd
        self.L = emd.logger
        self.S = emd.sift
        self.logfile = logfile
        self.x = np.sin(np.arange(40) / 2.3) + .3 * np.cos(np.arange(40) / 0.9) + np.arange(40) / 50
        self.bad = np.zeros((40, 2, 3))
        names = [n for n in list(logging.root.manager.loggerDict) if n == 'emd' or n.startswith('emd.')]
        self.pristine = {}
        for n in names:
            lg = logging.getLogger(n)
            self.pristine[n] = (list(lg.handlers), lg.level, lg.disabled, lg.propagate)
        self.root_disable = logging.root.manager.disable
        # ambient state that is the caller's: numpy's floating-point error policy (numpy's default here, not the harness's
        # all-'ignore'), observed from inside the sift by a recording wrapper on the single-IMF stage
        np.seterr(divide='warn', invalid='warn', over='warn', under='ignore')
        self.inner_errstates = INNER_ERRSTATES
        if not getattr(self.S.get_next_imf, '_emdverif_spy', False):
            _REAL['gni'] = self.S.get_next_imf
            self.S.get_next_imf = _gni_spy
        self.base = {'sift': self.run_variant('sift', None)}
        self.kwbase = {}

    def reset(self):
        logging.disable(self.root_disable)
        for n in list(logging.root.manager.loggerDict):
            if n == 'emd' or n.startswith('emd.'):
                lg = logging.getLogger(n)
                if not isinstance(lg, logging.Logger):
                    continue
                want = self.pristine.get(n)
                for h in list(lg.handlers):
                    if want is None or h not in want[0]:
                        lg.removeHandler(h)
                        try:
                            h.close()
                        except Exception:
                            pass
                if want is not None:
                    for h in want[0]:
                        if h not in lg.handlers:
                            lg.addHandler(h)
                    lg.setLevel(want[1])
                    lg.disabled = want[2]
                    lg.propagate = want[3]
                else:
                    lg.setLevel(logging.NOTSET)
                    lg.disabled = False
                    lg.propagate = True

    def run_variant(self, name, verbose, bad=False, positional=False, keyword_data=False):
        S = self.S
        x = self.bad if bad else self.x
        kw = {} if verbose == 'omit' else {'verbose': verbose}
        st = np.random.get_state()
        np.random.seed(99)
        try:
            if keyword_data:
                if name == 'sift':
                    return S.sift(X=x, max_imfs=2, **kw)
                if name == 'mask_sift':
                    return S.mask_sift(X=x, max_imfs=2, mask_freqs=.2, nphases=2, **kw)
                if name == 'ensemble_sift':
                    return S.ensemble_sift(X=x, max_imfs=2, nensembles=2, **kw)
                return S.complete_ensemble_sift(X=x, max_imfs=2, nensembles=2, **kw)[0]
            if positional:
                # verbose in its positional slot (4th of sift, 8th of the ensemble sifts, 11th of mask_sift), everything else equal
                if name == 'sift':
                    return S.sift(x, 1e-8, 2, verbose)
                if name == 'mask_sift':
                    return S.mask_sift(x, 1, 'ratio_imf', .2, 2, False, 2, 1e-8, 2, 1, verbose)
                if name == 'ensemble_sift':
                    return S.ensemble_sift(x, 2, .2, 'single', 1, 1e-8, 2, verbose)
                return S.complete_ensemble_sift(x, 2, .2, 'single', 1, 1e-8, 2, verbose)[0]
            if name == 'sift':
                return S.sift(x, max_imfs=2, **kw)
            if name == 'mask_sift':
                return S.mask_sift(x, max_imfs=2, mask_freqs=.2, nphases=2, **kw)
            if name == 'ensemble_sift':
                return S.ensemble_sift(x, max_imfs=2, nensembles=2, **kw)
            if name == 'complete_ensemble_sift':
                return S.complete_ensemble_sift(x, max_imfs=2, nensembles=2, **kw)[0]
        finally:
            np.random.set_state(st)
        raise ValueError(name)

    def kw_baselines(self):
        for v in ('sift', 'mask_sift', 'ensemble_sift', 'complete_ensemble_sift'):
            self.reset()
            try:
                self.kwbase[v] = ('returned', self.run_variant(v, 'omit', keyword_data=True))
            except Exception as e:
                self.kwbase[v] = ('raised', type(e).__name__)

    def handlers(self):
        # (every handler with its own level: a per-call override concerns the console, the log file keeps recording as configured)
        hs = [type(h).__name__ + ':' + str(h.get_name()) + ('' if h.get_name() == 'console' else '@%s' % h.level) for h in logging.getLogger('emd').handlers]
        # ... and the emd loggers' own levels (what reaches a log file also depends on them)
        lv = ['%s=%s' % (n, logging.getLogger(n).level) for n in sorted(logging.root.manager.loggerDict) if (n == 'emd' or n.startswith('emd.')) and isinstance(logging.getLogger(n), logging.Logger)]
        return hs + lv


def step(world, model, op, variant='sift'):
    """Applies one op to the real logger. Returns (outcome, detail). Updates model in place."""
    L = world.L
    kind, _, arg = op.partition(':')
    if kind == 'su':
        if arg == 'file':
            L.set_up(log_file=world.logfile)
            model['setup'], model['level'] = True, 20
        else:
            L.set_up(level=None if arg == 'None' else arg)
            model['setup'], model['level'] = True, (20 if arg == 'None' else LEVELS[arg])
        return 'ok', None
    if kind == 'sl':
        L.set_level(arg)
        if model['setup']:
            model['level'] = LEVELS[arg]
        return 'ok', None
    if kind == 'disable':
        L.disable()
        return 'ok', None
    if kind == 'enable':
        L.enable()
        return 'ok', None
    verbose = None if arg == 'None' else arg
    before = world.handlers()
    del world.inner_errstates[:]
    try:
        out = world.run_variant(variant, verbose, bad=kind.startswith('raise'), positional=kind.endswith('pos'), keyword_data=kind.endswith('kw'))
    except Exception as e:
        after = world.handlers()
        return 'raised', (type(e).__name__, str(e)[:80], before == after)
    after = world.handlers()
    return 'returned', (out, before == after)


def run_history(ctx, world, start, ops, variants=None, record=None):
    """Returns the trace [(level_after, outcome_class)] or None if a violation was reported."""
    world.reset()
    model = {'setup': False, 'level': None}
    L = world.L
    case = {'kind': 'history', 'start': start, 'ops': list(ops), 'variants': list(variants) if variants else None}
    if start == 'setup':
        L.set_up()
        model = {'setup': True, 'level': 20}
    trace = []
    for i, op in enumerate(ops):
        variant = variants[i] if variants else 'sift'
        kind = op.split(':')[0]
        if kind in ('callpos', 'raisepos'):
            ctx.count('positional_verbose_calls')
            kind = kind[:-3]
        if kind == 'callkw':
            ctx.count('keyword_data_calls')
            kind = 'kw'
        lvl_before = L.get_level()
        try:
            outcome, detail = step(world, model, op, variant)
        except Exception as e:
            ctx.violation('logger-op-exception:%s:%s' % (kind, type(e).__name__), 'history %s/%s: operation %s raised %s: %s'
                          % (start, list(ops), op, type(e).__name__, str(e)[:100]), case)
            return None
        lvl = L.get_level()
        where = 'history start=%s ops=%s, step %d (%s%s)' % (start, list(ops), i, op, '' if variant == 'sift' else ' on ' + variant)
        if kind == 'kw':
            # the reference outcome is the one observed for the same call before any logger existed
            ref = world.kwbase[variant]
            got = ('returned',) if outcome == 'returned' else ('raised', detail[0])
            if got != ref[:len(got)] or (outcome == 'returned' and not np.array_equal(detail[0], ref[1])):
                ctx.violation('keyword-data-outcome-depends-on-logger', '%s: with the data passed by keyword the call %s, but before any logger '
                              'was set up the same call %s' % (where, 'returned' if outcome == 'returned' else 'raised ' + detail[0],
                                                               'returned' if ref[0] == 'returned' else 'raised ' + ref[1]), case)
                return None
            if not (detail[1] if outcome == 'returned' else detail[2]):
                ctx.violation('handlers-changed', '%s: the emd handler list changed across a decorated call' % where, case)
                return None
            if lvl != lvl_before:
                ctx.violation('level-not-restored:keyword-data', '%s: console level was %s before the call and is %s afterwards' % (where, lvl_before, lvl), case)
                return None
            ctx.count('keyword_data_outcomes_equal')
        if kind in ('call', 'raise'):
            ctx.count('decorated_calls:' + variant)
            override = not op.endswith(':None')
            if override:
                ctx.count('calls_with_override' + ('_before_setup' if not model['setup'] else ''))
            if kind == 'call':
                if outcome != 'returned':
                    key = 'verbose-broke-call:%s' % detail[0] + (':before-setup' if not model['setup'] else '')
                    ctx.violation(key, '%s: a valid call raised %s: %s (verbosity override %s, logger %s)'
                                  % (where, detail[0], detail[1], op.split(':')[1], 'set up' if model['setup'] else 'never set up'), case)
                    return None
                out, same_handlers = detail
                if variant not in world.base:
                    world.base[variant] = out   # first observation in a pristine state is made below in run_shard
                if out.shape != world.base[variant].shape or not np.array_equal(out, world.base[variant]):
                    ctx.violation('result-depends-on-logger', '%s: result differs from the no-logger baseline' % where, case)
                    return None
                ctx.count('results_equal_baseline')
                if variant == 'sift':
                    outer = tuple(sorted(np.geterr().items()))
                    ctx.count('inner_error_states_observed', len(world.inner_errstates))
                    if any(st != outer for st in world.inner_errstates):
                        ctx.violation('numpy-error-state-depends-on-verbosity', '%s: inside the call numpy\'s floating-point error policy was %s, the caller\'s is %s '
                                      '(what a computation warns about / raises then depends on the requested verbosity)'
                                      % (where, dict(next(st for st in world.inner_errstates if st != outer)), dict(outer)), case)
                        return None
            else:
                if outcome != 'raised':
                    ctx.violation('bad-input-accepted', '%s: the (n,2,3) input did not raise' % where, case)
                    return None
                if detail[0] != 'ValueError':
                    key = 'raise-masked-by-logging:%s' % detail[0] + (':before-setup' if not model['setup'] else '')
                    ctx.violation(key, '%s: the call should fail with its input ValueError but raised %s: %s' % (where, detail[0], detail[1]), case)
                    return None
                same_handlers = detail[2]
                ctx.count('raising_calls')
            if not same_handlers:
                ctx.violation('handlers-changed', '%s: the emd handler list changed across a decorated call' % where, case)
                return None
            if lvl != lvl_before:
                key = 'level-not-restored:' + ('after-raise' if kind == 'raise' else 'after-return')
                ctx.violation(key, '%s: console level was %s before the call and is %s afterwards' % (where, lvl_before, lvl), case)
                return None
        if lvl != model['level']:
            ctx.violation('level-model:%s' % kind, '%s: get_level() is %s, the model says %s' % (where, lvl, model['level']), case)
            return None
        trace.append([lvl, outcome])
        ctx.count('steps_checked')
    return trace


def abort_probe(ctx, world, rng):
    """"... the previous console level is back in place when the call returns or raises" - whatever is raised: a decorated call
    with an override is abandoned at an arbitrary statement of the sift by a BaseException (what Ctrl-C or sys.exit() in a signal
    handler look like), then the console level, the handler list and the next call's result are checked."""
    from ..monitors import LineFailpoint, InjectedAbort
    L = world.L
    for _ in range(6):
        world.reset()
        base_level = gens.pick(rng, ['WARNING', 'INFO', 'CRITICAL'])
        L.set_up(level=base_level)
        over = gens.pick(rng, [v for v in ('DEBUG', 'CRITICAL', 'INFO', 'WARNING') if v != base_level])
        with LineFailpoint(('/emd/sift.py',)) as probe:
            world.run_variant('sift', over)
        nlines = probe.lines
        for k in sorted(set(int(v) for v in rng.integers(1, max(nlines, 2), 4))):
            before, hb = L.get_level(), world.handlers()
            case = {'kind': 'abort', 'console': base_level, 'override': over, 'statement': k}
            ctx.case(digest('abort', base_level, over, k), True)
            try:
                with LineFailpoint(('/emd/sift.py',), abort_at=k):
                    world.run_variant('sift', over)
            except InjectedAbort:
                ctx.count('decorated_calls_abandoned_by_a_base_exception')
            after, ha = L.get_level(), world.handlers()
            if after != before or ha != hb:
                ctx.violation('level-not-restored:after-base-exception', 'a sift(verbose=%r) call abandoned by a BaseException at statement %d left the console level at %s '
                              '(it was %s) / handlers %s' % (over, k, after, before, 'changed' if ha != hb else 'unchanged'), case)
                return
            out = world.run_variant('sift', 'omit')
            if not np.array_equal(out, world.base['sift']):
                ctx.violation('result-depends-on-logger', 'after an abandoned call the next sift differs from the baseline', case)
                return
    world.reset()


def fresh_trace(start, ops, variants, logfile):
    """Re-run a history in a fresh interpreter without any reset logic."""
    env = dict(os.environ, EMD_REPO=REPO, PYTHONPATH=VERIF)
    p = subprocess.run([sys.executable, '-W', 'ignore', '-m', 'emdverif.props.C20', json.dumps({'start': start, 'ops': list(ops), 'variants': variants, 'logfile': logfile})],
                       capture_output=True, text=True, timeout=300, env=env, cwd=VERIF)
    for line in p.stdout.splitlines()[::-1]:
        if line.startswith('TRACE '):
            return json.loads(line[6:])
    return {'error': (p.stderr or p.stdout)[-300:]}


FD_OPS = (['su:None', 'su:DEBUG', 'su:WARNING', 'su:CRITICAL', 'sl:CRITICAL', 'sl:CRITICAL', 'sl:DEBUG', 'sl:INFO', 'disable', 'enable']
          + ['call:' + v for v in ['None', 'omit', 'omit', 'CRITICAL', 'INFO', 'DEBUG']] + ['raise:omit', 'raise:DEBUG', 'raise:CRITICAL'])


def fd_history(ctx, rng, idx):
    """What actually reaches file descriptor 1 - from this process and from every worker process it starts - is recorded for
    a history run in a fresh interpreter whose stdout is a file; operations are separated by marker lines. While the logger
    has never been set up, is disabled, or the level in force is CRITICAL, a decorated call must write nothing at all."""
    L = int(rng.integers(5, 11))
    ops = [FD_OPS[int(rng.integers(len(FD_OPS)))] for _ in range(L)]
    if rng.random() < .5:
        # the shape that separates "level in force now" from "level in force when some earlier call ran"
        ops = ['su:DEBUG', 'call:omit', 'sl:CRITICAL', 'call:omit'] + ops[:4] if rng.random() < .5 else \
              ['su:CRITICAL', 'call:DEBUG', 'call:omit'] + ops[:5]
    variants = [gens.pick(rng, ['sift', 'mask_sift', 'ensemble_sift', 'complete_ensemble_sift', 'ensemble_sift', 'mask_sift']) for _ in ops]
    nproc = [int(gens.pick(rng, [1, 2, 2, 3])) for _ in ops]
    fd_run(ctx, {'ops': ops, 'variants': variants, 'nprocesses': nproc}, '%d_%d' % (ctx.shard, idx))


def replay_fd(ctx, case):
    os.makedirs(os.path.join(WORK, 'C20'), exist_ok=True)
    fd_run(ctx, {k: case[k] for k in ('ops', 'variants', 'nprocesses')}, 'replay')


def fd_run(ctx, spec, tag):
    ops, variants, nproc = spec['ops'], spec['variants'], spec['nprocesses']
    case = dict(spec, kind='fd')
    out = os.path.join(WORK, 'C20', 'fd_%s.out' % tag)
    env = dict(os.environ, EMD_REPO=REPO, PYTHONPATH=VERIF)
    try:
        with open(out, 'wb') as f:
            p = subprocess.run([sys.executable, '-W', 'ignore', '-m', 'emdverif.props.C20', '--fd', json.dumps(spec)],
                               stdout=f, stderr=subprocess.PIPE, timeout=300, env=env, cwd=VERIF)
        data = open(out, 'rb').read().decode('utf8', 'replace')
    except subprocess.TimeoutExpired:
        ctx.count('fd_watchdog')
        return
    finally:
        try:
            os.unlink(out)
        except OSError:
            pass
    if p.returncode or '@@end@@' not in data:
        ctx.count('fd_harness_error')
        ctx.note('fd history failed: %s' % p.stderr.decode('utf8', 'replace')[-300:])
        return
    ctx.count('fd_histories')
    ctx.case(digest('fd', ops, variants, nproc), True)
    segs = data.split('@@')
    seg = {segs[i]: segs[i + 1] for i in range(1, len(segs) - 1, 2)}
    setup, level, disabled = False, None, False
    for i, op in enumerate(ops):
        kind, _, arg = op.partition(':')
        text = seg.get(str(i), '').strip()
        if kind == 'su':
            setup, level = True, (20 if arg == 'None' else LEVELS[arg])
        elif kind == 'sl':
            level = LEVELS[arg] if setup else level
        elif kind == 'disable':
            disabled = True
        elif kind == 'enable':
            disabled = False
        else:
            eff = LEVELS[arg] if (arg in LEVELS and setup) else level
            ctx.count('fd_calls_observed')
            if nproc[i] > 1 and variants[i] != 'sift':
                ctx.count('fd_calls_with_worker_processes')
            if (not setup) or disabled or eff == 50:
                ctx.count('fd_silent_calls_checked')
                if text:
                    why = 'never set up' if not setup else ('disabled' if disabled else 'level in force CRITICAL')
                    ctx.violation('output-while-silenced:' + ('workers' if nproc[i] > 1 and variants[i] != 'sift' else 'single-process'),
                                  'fd history %s: step %d (%s on %s, nprocesses=%d) wrote %d bytes to standard output although the logger was %s; '
                                  'first line: %r' % (ops, i, op, variants[i], nproc[i], len(text), why, text.splitlines()[0][:120]), case)
                    return
            elif eff <= 20 and text:
                ctx.count('fd_audible_calls_seen')


def fd_main(spec):
    """Fresh interpreter, real standard output (a file): apply the operations, separated by marker lines written to fd 1."""
    from emdverif.harness import bootstrap
    bootstrap()
    import emd
    L, S = emd.logger, emd.sift
    x = np.sin(np.arange(40) / 2.3) + .3 * np.cos(np.arange(40) / 0.9) + np.arange(40) / 50
    bad = np.zeros((40, 2, 3))
    np.random.seed(5)
    for i, op in enumerate(spec['ops']):
        sys.stdout.flush()
        os.write(1, ('\n@@%d@@\n' % i).encode())
        kind, _, arg = op.partition(':')
        v, npr = spec['variants'][i], spec['nprocesses'][i]
        if kind == 'su':
            L.set_up(level=None if arg == 'None' else arg)
        elif kind == 'sl':
            L.set_level(arg)
        elif kind == 'disable':
            L.disable()
        elif kind == 'enable':
            L.enable()
        else:
            kw = {} if arg == 'omit' else {'verbose': None if arg == 'None' else arg}
            d = bad if kind == 'raise' else x
            try:
                if v == 'sift':
                    S.sift(d, max_imfs=2, **kw)
                elif v == 'mask_sift':
                    S.mask_sift(d, max_imfs=2, mask_freqs=.2, nphases=2, nprocesses=npr, **kw)
                elif v == 'ensemble_sift':
                    S.ensemble_sift(d, max_imfs=2, nensembles=3, nprocesses=npr, **kw)
                else:
                    S.complete_ensemble_sift(d, max_imfs=2, nensembles=3, nprocesses=npr, **kw)
            except ValueError:
                if kind != 'raise':
                    raise
        sys.stdout.flush()
    sys.stdout.flush()
    os.write(1, b'\n@@end@@\n')


NFD = {'quick': 96, 'thorough': 960}


def run_shard(ctx):
    from ..harness import bootstrap
    rng = ctx.rng
    os.makedirs(os.path.join(WORK, 'C20'), exist_ok=True)
    logfile = os.path.join(WORK, 'C20', 'emd_%d.log' % ctx.shard)
    old = sys.stdout
    sys.stdout = NullOut()
    try:
        world = World(logfile)
        for v in ('mask_sift', 'ensemble_sift', 'complete_ensemble_sift'):
            world.reset()
            world.base[v] = world.run_variant(v, 'omit')
        world.kw_baselines()
        kept = []
        # random part first (bounded), then the exhaustive part (always completes)
        n = NRANDOM[ctx.tier] // ctx.nshards
        for i in range(n):
            if ctx.out_of_time():
                break
            L = int(rng.integers(4, 13))
            allops = OPS + EXTRA_OPS
            ops = [allops[int(rng.integers(len(allops)))] for _ in range(L)]
            variants = [gens.pick(rng, ['sift', 'sift', 'mask_sift', 'ensemble_sift', 'complete_ensemble_sift']) for _ in range(L)]
            start = gens.pick(rng, ['never', 'setup'])
            nontriv = any(o.split(':')[0] in ('call', 'raise', 'callpos', 'raisepos', 'callkw') and not o.endswith(':None') for o in ops)
            ctx.case(digest(start, ops, variants), nontriv)
            tr = run_history(ctx, world, start, ops, variants)
            ctx.count('random_histories')
            if tr is not None and len(kept) < NFRESH[ctx.tier]:
                kept.append((start, ops, variants, tr))
        idx = 0
        for start in ('never', 'setup'):
            for ops in itertools.product(OPS, repeat=DEPTH[ctx.tier]):
                idx += 1
                if idx % ctx.nshards != ctx.shard:
                    continue
                nontriv = any(o.split(':')[0] in ('call', 'raise') and not o.endswith(':None') for o in ops)
                ctx.case(start + '|' + '|'.join(ops), nontriv)
                tr = run_history(ctx, world, start, ops)
                ctx.count('enumerated_histories')
                if tr is not None and idx % 4001 == 0 and len(kept) < NFRESH[ctx.tier] + 2:
                    kept.append((start, list(ops), None, tr))
                if idx < 60 and ctx.shard == 0 and idx % 16 == 0:
                    ctx.sample({'start': start, 'ops': list(ops), 'trace': tr})
        ctx.count('exhaustive_done')
        world.reset()
        abort_probe(ctx, world, rng)
    finally:
        sys.stdout = old
    # what reaches file descriptor 1, including from worker processes
    for i in range(NFD[ctx.tier] // ctx.nshards):
        if ctx.time_left() < 5:
            break
        fd_history(ctx, rng, i)
    # fidelity of the in-process reset
    for start, ops, variants, tr in kept:
        ft = fresh_trace(start, ops, variants, logfile + '.fresh')
        ctx.count('fresh_process_replays')
        if ft != tr:
            ctx.count('fresh_process_mismatch')
            ctx.note('reset fidelity: in-process trace %s vs fresh interpreter %s for %s/%s' % (tr, ft, start, ops))
    for fn in os.listdir(os.path.join(WORK, 'C20')):
        if fn.startswith('emd_%d.log' % ctx.shard):
            try:
                os.unlink(os.path.join(WORK, 'C20', fn))
            except OSError:
                pass


def finalize(agg, tier):
    c = agg['counters']
    r = []
    want = 2 * len(OPS) ** DEPTH[tier]
    if c.get('enumerated_histories', 0) != want:
        r.append('enumerated %d histories, expected %d' % (c.get('enumerated_histories', 0), want))
    if c.get('fresh_process_mismatch', 0):
        r.append('%d of %d fresh-interpreter replays disagree with the in-process trace (logger reset not faithful)'
                 % (c['fresh_process_mismatch'], c.get('fresh_process_replays', 0)))
    for k, need in [('fresh_process_replays', 8), ('calls_with_override_before_setup', 100), ('raising_calls', 500), ('results_equal_baseline', 1000),
                    ('fd_silent_calls_checked', 40), ('fd_calls_with_worker_processes', 40), ('fd_audible_calls_seen', 10),
                    ('keyword_data_outcomes_equal', 100), ('decorated_calls:mask_sift', 50), ('decorated_calls:ensemble_sift', 50), ('decorated_calls:complete_ensemble_sift', 50)]:
        if c.get(k, 0) < need:
            r.append('%s: %d < %d' % (k, c.get(k, 0), need))
    return r


def replay(ctx, case):
    if case.get('kind') == 'fd':
        return replay_fd(ctx, case)
    old = sys.stdout
    sys.stdout = NullOut()
    try:
        os.makedirs(os.path.join(WORK, 'C20'), exist_ok=True)
        world = World(os.path.join(WORK, 'C20', 'emd_replay.log'))
        for v in ('mask_sift', 'ensemble_sift', 'complete_ensemble_sift'):
            world.reset()
            world.base[v] = world.run_variant(v, 'omit')
        world.kw_baselines()
        if case.get('kind') == 'abort':
            abort_probe(ctx, world, np.random.default_rng(case.get('statement', 0)))
        else:
            run_history(ctx, world, case['start'], case['ops'], case.get('variants'))
        world.reset()
    finally:
        sys.stdout = old


if __name__ == '__main__' and sys.argv[1] == '--fd':
    fd_main(json.loads(sys.argv[2]))
    sys.exit(0)

if __name__ == '__main__':
    # fresh-interpreter replay (no reset logic at all): prints the trace
    from emdverif.harness import bootstrap, Ctx
    spec = json.loads(sys.argv[1])
    bootstrap()
    out = sys.stdout
    sys.stdout = NullOut()
    w = World(spec['logfile'])
    for v in ('mask_sift', 'ensemble_sift', 'complete_ensemble_sift'):
        w.base[v] = w.run_variant(v, 'omit')
    w.kw_baselines()
    w.reset = lambda: None
    c = Ctx('C20', 'quick', 0, 0, 1, 600)
    tr = run_history(c, w, spec['start'], spec['ops'], spec['variants'])
    sys.stdout = out
    print('TRACE ' + json.dumps(tr))
