"""C02 - sifting commutes with rescaling, sign flip and time reversal.

Metamorphic oracle on the real functions: T(out(x)) vs out(T(x)).
 * exact part (np.array_equal, no tolerance): c = +-2^k for get_next_imf and sift (sift_thresh scaled
   with the signal because it is an absolute amplitude), c = +2^k for mask_sift with ratio amplitudes;
 * approximate part (1e-10 relative, outside the measured guard band): arbitrary non-zero c and time
   reversal for get_next_imf and, IMF by IMF, for the leading IMFs of sift."""
import numpy as np

from .. import gens
from ..harness import watchdog, WatchdogTimeout, digest
from ..refmodels import ref_next_imf, guard_margin, guard_margin_single
from ..monitors import thread_probe

MANIFEST = {
    'text': 'Held on every comparison executed: for seeded order-one signals x all stop rules / step sizes / interpolants / pad widths the real get_next_imf, sift and mask_sift are run on x and on the transformed input; results must be bit-identical for c = +-2^k (|k|<=8; mask_sift c>0, ratio amplitudes) and agree to 1e-10 relative for arbitrary real c and for time reversal, unless a stop/extremum decision of the original run lies within a measured guard band (1e-6), in which case the comparison is excluded and counted. Sampling, not proof. Schedules: the same deterministic calls made from 4-5 threads of one interpreter at once (thread switch every 1-10 microseconds) must reproduce the results obtained alone. A quarter of the shards run in a session that turns Deprecation/Future/UserWarnings into errors.',
    'note': 'Trusted: exactness of IEEE scaling by powers of two and of negation. sift_thresh is scaled with the signal. Guard-band exclusions are reported per interpolation method; PCHIP full-sift comparisons beyond the first IMF are mostly excluded (flat envelope edges make later extrema rounding-level).',
    'technique': 'metamorphic runtime oracle (transform input, compare outputs of the real functions), exact + guarded-tolerance',
}
LOGGER_ON_ODD_SHARDS = 'quarter'   # (sifting logs heavily: a quarter of the shards run with the logger set up)
SESSION_NOISE = True      # every shard starts after unrelated session activity (harness.session_noise)
BUDGET_S = {'quick': 75, 'thorough': 480}
NCASES = {'quick': 1800, 'thorough': 30000}
RULE = ('seeded random oscillatory signals (noise, walks, multi-tone+trend, AM/FM, integer-valued; n 16..300) x stop rule x '
        'step x interpolation x pad width; each case applies 2 power-of-two scalings (random sign), one arbitrary real '
        'scaling and time reversal; non-trivial = the untransformed run removed at least one local mean; distinct by '
        'sha1 of (signal, options, routine)')
ASSUMPTIONS = ['cases whose decisions lie within 1e-6 (relative) of a threshold/tie are excluded and counted, as the property quantifier allows']

TOL = 1e-10
GUARD = 1e-6
# Records of ~1e5 noise samples sifted for ~100 iterations always contain a near-tie closer than 1e-6 somewhere; the measured
# effect of reversal / scaling on them is ~1e-14 (see counters max_rel_err_*), so for those records only decisions closer than
# 1e-9 are excluded (five orders of magnitude above the observed perturbation).
GUARD_LONG = 1e-9


def gen_case(rng, routine):
    kind = gens.pick(rng, gens.OSC_FAMILIES)
    eo = gens.env_opts(rng)
    n = int(gens.pick(rng, [16, 40, 100, 100, 300]))
    if eo['interp_method'] != 'splrep' or routine != 'gni':
        n = min(n, 120)
    x = gens.signal(rng, kind, n)
    x = x / max(np.abs(x).max(), 1e-12) * float(rng.uniform(.5, 2))
    io = gens.imf_opts(rng)
    if routine == 'gni' and kind == 'int' and rng.random() < .6:
        # quantised data with exact plateaus: one or two iterations depend only on exact comparisons
        io = {'stop_method': 'fixed', 'max_iters': int(rng.integers(1, 3)), 'env_step_size': float(gens.pick(rng, [1, .5]))}
        x = np.round(x * 4) / 4
    if routine == 'gni' and io['stop_method'] != 'fixed':
        io['max_iters'] = 1000
    c = {'kind': routine, 'family': kind, 'x': x, 'imf_opts': io, 'envelope_opts': eo, 'extrema_opts': gens.ext_opts(rng)}
    if rng.random() < .15:
        c['extrema_opts']['parabolic_extrema'] = True      # (exact comparisons only, see check_gni)
    if routine in ('gni', 'sift') and rng.random() < .12:
        # raw counts: small non-negative integers (the deepest troughs are exactly 0), stored in an unsigned type
        v = np.round((x - x.min()) / max(np.ptp(x), 1e-12) * float(gens.pick(rng, [5, 8, 40, 200])))
        c['x'], c['uint'], c['family'] = v, gens.pick(rng, ['uint8', 'uint16', 'uint32', 'uint64']), kind + '+counts'
    ks = rng.integers(-8, 9, 2)
    c['pow2'] = [float(np.ldexp(1.0, int(k)) * (1 if (routine == 'mask' or rng.random() < .5) else -1)) for k in ks]
    if routine != 'mask' and -1.0 not in c['pow2'] and rng.random() < .3:
        c['pow2'][0] = -1.0
    c['real'] = float(np.exp(rng.uniform(np.log(1e-3), np.log(1e3))) * (1 if rng.random() < .5 else -1))
    if routine == 'mask':
        c['mask'] = {'mask_amp_mode': gens.pick(rng, ['ratio_sig', 'ratio_imf']),
                     'mask_freqs': gens.pick(rng, ['zc', 'zc', 0.2, 0.1, [0.25, 0.11, 0.04]]),
                     'mask_amp': (float(gens.pick(rng, [1, .5, 2])) if rng.random() < .6 else rng.uniform(.3, 2, 6)),
                     'max_imfs': int(rng.integers(1, 5)),
                     'nphases': int(gens.pick(rng, [1, 2, 4]))}
    return c


def raw_counts(ctx, case, x):
    """The recording as the caller stores it: for cases marked `uint` the (non-negative, integer-valued) samples in an unsigned type."""
    if case.get('uint'):
        ctx.count('recordings_stored_as_unsigned_counts')
        return x.astype(case['uint'])
    return x


def _margins(S, x, io, eo, xo, single=False):
    def env(p, mode):
        return S.interp_envelope(p, mode=mode, **eo, extrema_opts=xo)
    mo = {k: v for k, v in io.items() if k != 'energy_thresh'}
    mo.setdefault('max_iters', 1000)
    out, k, val, trace = ref_next_imf(x, env, max_steps=mo['max_iters'] + 2, **mo)
    g = guard_margin_single(trace) if single else guard_margin(trace)
    if out == 'noext':
        # the decision "no envelopes" is an extremum count on the final iterate
        p = val[:, 0]
        d = np.abs(np.diff(p))
        if single and k == 1:
            d = d[d > 0]   # exact ties of the input itself are safe
        sc = np.abs(p).max() or 1.0
        g = min(g, float(d.min() / sc) if len(d) else 1.0)
    return g, out, k


def check_gni(ctx, case, wd=60):
    from emd import sift as S
    from emd.support import EMDSiftCovergeError
    x, io, eo, xo = np.asarray(case['x'], float), case['imf_opts'], case['envelope_opts'], case['extrema_opts']
    dig = digest(x, io, eo, xo, 'gni')
    long = case.get('family') == 'noise-very-long'
    rcase = {k: v for k, v in case.items() if k != 'x'} if case.get('family') == 'noise-very-long' else case

    def run(v):
        try:
            return S.get_next_imf(v.copy(), envelope_opts=dict(eo), extrema_opts=dict(xo), **io)
        except EMDSiftCovergeError:
            return 'raise'
    try:
        with watchdog(wd):
            base = run(raw_counts(ctx, case, x))      # (the recording itself may be stored as unsigned counts; c*x is a float array)
            g, mout, mk = _margins(S, x, io, eo, xo, single=True)
            ctx.case(dig, not (mout == 'noext' and mk == 1))
            for c in case['pow2']:
                t = run(c * x)
                ctx.count('gni_exact_comparisons')
                ctx.count('gni_exact_negative' if c < 0 else 'gni_exact_positive')
                if (base == 'raise') != (t == 'raise'):
                    ctx.violation('gni-scale-raise', 'convergence error for x but not for %g*x (or vice versa)' % c, dict(rcase, c=c))
                elif base != 'raise' and (not np.array_equal(t[0], c * base[0]) or t[1] != base[1]):
                    ctx.violation('gni-pow2-scale' + ('-neg' if c < 0 else ''),
                                  'get_next_imf(%g*x) is not bit-identical to %g*get_next_imf(x): max diff %.3g, flags %s/%s'
                                  % (c, c, np.abs(t[0] - c * base[0]).max() / abs(c), t[1], base[1]), dict(rcase, c=c))
            if base == 'raise':
                ctx.count('base_raised')
                return
            if xo.get('parabolic_extrema'):
                # parabolic refinement is not among the settings the property quantifies over: only the exact power-of-two / sign
                # comparisons above are made with it (the padding loop's coverage test, min < 0 / max >= N, is not mirror-symmetric
                # for fractional locations, so time reversal holds only approximately with refined extrema)
                ctx.count('gni_parabolic_cases_exact_comparisons_only')
                return
            meth = eo['interp_method']
            if g < (GUARD_LONG if long else GUARD):
                ctx.count('gni_guard_excluded:' + meth)
                return
            if long:
                ctx.maxi('min_guard_margin_very_long', -g)
            if np.any(np.diff(x) == 0):
                ctx.count('gni_approx_with_exact_plateaus')
            sc = np.abs(x).max()
            c = case['real']
            t = run(c * x)
            ctx.count('gni_approx_scale:' + meth)
            if t == 'raise' or t[1] != base[1] or np.abs(t[0] / c - base[0]).max() > TOL * sc:
                err = float('nan') if t == 'raise' else np.abs(t[0] / c - base[0]).max() / sc
                ctx.violation('gni-real-scale', 'get_next_imf(c*x)/c differs from get_next_imf(x) for c=%g: rel err %.3g (guard margin %.3g)'
                              % (c, err, g), dict(rcase, c=c))
            else:
                ctx.maxi('max_rel_err_scale', np.abs(t[0] / c - base[0]).max() / sc)
            t = run(x[::-1])
            ctx.count('gni_approx_reverse:' + meth)
            if t == 'raise' or t[1] != base[1] or np.abs(t[0][::-1] - base[0]).max() > TOL * sc:
                err = float('nan') if t == 'raise' else np.abs(t[0][::-1] - base[0]).max() / sc
                ctx.violation('gni-reverse', 'get_next_imf(reversed x) reversed differs from get_next_imf(x): rel err %.3g '
                              '(guard margin %.3g, flags %s/%s)' % (err, g, t if t == 'raise' else t[1], base[1]), rcase)
            else:
                ctx.maxi('max_rel_err_reverse', np.abs(t[0][::-1] - base[0]).max() / sc)
    except WatchdogTimeout:
        ctx.count('watchdog')


def check_pad0(ctx, case):
    """pad_width=0 (documented as an int >= 0): whatever single-IMF extraction does with it - reject it or use it - it must do to
    the recording, its mirror image, its negative and its rescaled copy alike."""
    from emd import sift as S
    x, io, eo = np.asarray(case['x'], float), case['imf_opts'], case['envelope_opts']
    ctx.case(digest(x, io, eo, 'pad0'), True)

    def run(v):
        try:
            return S.get_next_imf(v.copy(), envelope_opts=dict(eo), extrema_opts={'pad_width': 0}, **io)[0]
        except Exception as e:
            return type(e).__name__
    try:
        with watchdog(60):
            base, rev, neg, sc = run(x), run(x[::-1].copy()), run(-x), run(4.0 * x)
    except WatchdogTimeout:
        ctx.count('watchdog')
        return
    ctx.count('pad_width_0_comparisons')
    outs = {'reversed': rev, 'negated': neg, 'rescaled': sc}
    if isinstance(base, str):
        ctx.count('pad_width_0_rejected:' + base)
        for k, o in outs.items():
            if not isinstance(o, str):      # (which error is raised may differ - upper or lower envelope fails first - rejection is what counts)
                ctx.violation('pad0-outcome', 'get_next_imf(extrema_opts={pad_width: 0}) raises %s for the recording but returns an IMF for the %s recording'
                              % (base, k), case)
                return
        return
    scale = max(np.abs(x).max(), 1e-300)
    for k, o, want in (('reversed', rev, base[::-1]), ('negated', neg, -base), ('rescaled', sc, 4.0 * base)):
        if isinstance(o, str) or o.shape != want.shape or np.abs(o - want).max() > (1e-9 * scale if k == 'reversed' else 0):
            ctx.violation('pad0-' + k, 'with pad_width=0 the IMF of the %s recording is not the correspondingly transformed IMF of the recording (%s)'
                          % (k, o if isinstance(o, str) else 'max diff %.3g' % (np.abs(o - want).max() if o.shape == want.shape else np.nan)), case)
            return


def check_sift(ctx, case):
    from emd import sift as S
    from emd.support import EMDSiftCovergeError
    x, io, eo, xo = np.asarray(case['x'], float), case['imf_opts'], case['envelope_opts'], case['extrema_opts']
    dig = digest(x, io, eo, xo, 'sift')
    thr = 1e-8

    def run(v, t):
        try:
            return S.sift(v.copy(), sift_thresh=t, imf_opts=dict(io), envelope_opts=dict(eo), extrema_opts=dict(xo))
        except EMDSiftCovergeError:
            return 'raise'
    try:
        with watchdog(90):
            base = run(raw_counts(ctx, case, x), thr)
            if isinstance(base, str):
                ctx.case(dig, False)
                ctx.count('base_raised')
                return
            ctx.case(dig, base.shape[1] >= 2)
            for c in case['pow2']:
                t = run(c * x, abs(c) * thr)
                ctx.count('sift_exact_comparisons')
                ctx.count('sift_exact_negative' if c < 0 else 'sift_exact_positive')
                if isinstance(t, str) or t.shape != base.shape or not np.array_equal(t, c * base):
                    ctx.violation('sift-pow2-scale' + ('-neg' if c < 0 else ''),
                                  'sift(%g*x) is not bit-identical to %g*sift(x): shapes %s vs %s'
                                  % (c, c, 'raise' if isinstance(t, str) else t.shape, base.shape), dict(case, c=c))
            if xo.get('parabolic_extrema'):
                ctx.count('sift_parabolic_cases_exact_comparisons_only')
                return
            # approximate: IMF by IMF until the guard band is hit
            meth = eo['interp_method']
            sc = np.abs(x).max()
            creal = case['real']
            ts = run(creal * x, abs(creal) * thr)
            tr = run(x[::-1], thr)
            resid = x.copy()
            for j in range(base.shape[1]):
                g, mout, mk = _margins(S, resid, io, eo, xo)
                if g < GUARD:
                    ctx.count('sift_guard_excluded_imfs:' + meth, base.shape[1] - j)
                    break
                ctx.count('sift_approx_imfs_compared:' + meth)
                for name, t, back in (('real-scale', ts, lambda a: a / creal), ('reverse', tr, lambda a: a[::-1])):
                    if isinstance(t, str) or t.shape[1] <= j:
                        ctx.violation('sift-%s-columns' % name, 'transformed run has no component %d although the original '
                                      'has %d and the decision margins are %.3g' % (j, base.shape[1], g), case)
                        return
                    err = np.abs(back(t[:, j]) - base[:, j]).max() / sc
                    if err > TOL:
                        ctx.violation('sift-%s' % name, 'component %d of sift(T(x)) mapped back differs from sift(x): rel err %.3g '
                                      '(guard margin %.3g, %s)' % (j, err, g, meth), case)
                        return
                    ctx.maxi('max_rel_err_sift_' + name, err)
                resid = x - base[:, :j + 1].sum(axis=1)
            else:
                # every component compared: the column counts must agree too
                ctx.count('sift_fully_compared')
                for name, t in (('real-scale', ts), ('reverse', tr)):
                    if t.shape[1] != base.shape[1]:
                        # the final "no envelopes" decision was guarded by the residual's margin above
                        g, _, _ = _margins(S, resid, io, eo, xo)
                        if g >= GUARD:
                            ctx.violation('sift-%s-count' % name, 'sift(T(x)) returned %d components, sift(x) %d'
                                          % (t.shape[1], base.shape[1]), case)
    except WatchdogTimeout:
        ctx.count('watchdog')


def check_mask(ctx, case):
    from emd import sift as S
    from emd.support import EMDSiftCovergeError
    x, io, eo, xo = np.asarray(case['x'], float), case['imf_opts'], case['envelope_opts'], case['extrema_opts']
    mk = dict(case['mask'])
    dig = digest(x, io, eo, xo, mk, 'mask')

    def run(v, t):
        try:
            return S.mask_sift(v.copy(), sift_thresh=t, imf_opts=dict(io), envelope_opts=dict(eo), extrema_opts=dict(xo),
                               ret_mask_freq=True, **mk)
        except EMDSiftCovergeError:
            return 'raise'
    try:
        with watchdog(90):
            amp0 = np.array(mk['mask_amp'], copy=True)
            base = run(x, 1e-8)
            if isinstance(base, str):
                ctx.case(dig, False)
                ctx.count('base_raised')
                return
            ctx.case(dig, True)
            if isinstance(mk['mask_amp'], np.ndarray):
                ctx.count('mask_array_amplitudes_reused_across_calls')
            for c in case['pow2']:
                t = run(c * x, c * 1e-8)
                ctx.count('mask_exact_comparisons')
                ctx.count('mask_mode:' + mk['mask_amp_mode'])
                if isinstance(t, str) or t[0].shape != base[0].shape or not np.array_equal(t[0], c * base[0]):
                    ctx.violation('mask-pow2-scale:' + mk['mask_amp_mode'],
                                  'mask_sift(%g*x) with %s amplitudes is not bit-identical to %g*mask_sift(x)'
                                  % (c, mk['mask_amp_mode'], c), dict(case, c=c))
                elif not np.array_equal(np.asarray(t[1], float), np.asarray(base[1], float)):
                    ctx.violation('mask-freqs-scale', 'mask frequencies change under positive rescaling of the input', dict(case, c=c))
            if len(x) >= 40 and case.get('reuse_buffer', True):
                # the caller's working buffer: sifted, then repaired in place away from its ends (artefact removal), then sifted
                # again - the comparison is between the repaired recording and its rescaled copy
                def run_buf(v, t):
                    try:
                        return S.mask_sift(v, sift_thresh=t, imf_opts=dict(io), envelope_opts=dict(eo), extrema_opts=dict(xo), ret_mask_freq=True, **mk)
                    except EMDSiftCovergeError:
                        return 'raise'
                buf = x.copy()
                run_buf(buf, 1e-8)
                buf[10:-10] = (.5 * buf[10:-10] + .8 * np.roll(buf, 3)[10:-10])
                keep = buf.copy()
                b2 = run_buf(buf, 1e-8)
                c = float(case['pow2'][0])
                t2 = run(c * buf, c * 1e-8)
                ctx.count('mask_comparisons_after_in_place_repair')
                if not np.array_equal(buf, keep):
                    ctx.violation('mask-input-modified', 'mask_sift modified the recording passed to it', case)
                elif isinstance(b2, str) != isinstance(t2, str) or (not isinstance(b2, str) and (t2[0].shape != b2[0].shape or not np.array_equal(t2[0], c * b2[0])
                                                                                                or not np.array_equal(np.asarray(t2[1], float), np.asarray(b2[1], float)))):
                    ctx.violation('mask-pow2-scale:after-in-place-repair', 'after the same buffer was sifted, repaired in place (interior samples only) and '
                                  'sifted again, mask_sift(%g*x) is not %g*mask_sift(x) for the repaired recording (mask frequencies %s vs %s)'
                                  % (c, c, np.round(np.asarray(t2[1], float), 4).tolist()[:3] if not isinstance(t2, str) else t2,
                                     np.round(np.asarray(b2[1], float), 4).tolist()[:3] if not isinstance(b2, str) else b2), case)
            if not np.array_equal(np.asarray(mk['mask_amp']), amp0):
                ctx.violation('mask-amp-modified', 'mask_sift modified the mask_amp array passed to it (re-using it changes the next result)', case)
    except WatchdogTimeout:
        ctx.count('watchdog')


CHECK = {'gni': check_gni, 'sift': check_sift, 'mask': check_mask, 'pad0': check_pad0}


def thread_cases(seed):
    """A recording and its rescaled copy (and a second pair) decomposed at the same time in different threads."""
    from emd import sift as S
    r = np.random.default_rng(seed)
    n = int(gens.pick(r, [200, 500, 1000]))
    t = np.arange(n)
    x1 = np.sin(2 * np.pi * t / 13.7) + .5 * np.sin(2 * np.pi * t / 59.) + .2 * r.standard_normal(n)
    x2 = np.cumsum(r.standard_normal(n)) * .3
    io = gens.pick(r, [{}, {'stop_method': 'rilling'}, {'stop_method': 'fixed', 'max_iters': 4}])
    sigs = [x1, -4.0 * x1, x2, 0.25 * x2]
    if r.random() < .5:
        return [(lambda v: (lambda: S.sift(v.copy(), max_imfs=4, imf_opts=dict(io))))(v) for v in sigs], {'seed': int(seed), 'n': n, 'routine': 'sift'}
    return [(lambda v: (lambda: S.get_next_imf(v.copy()[:, None], **io)))(v) for v in sigs], {'seed': int(seed), 'n': n, 'routine': 'get_next_imf'}


def run_shard(ctx):
    rng = ctx.rng
    if ctx.shard % 2 == 1:
        calls, tcase = thread_cases(int(rng.integers(1 << 30)))
        thread_probe(ctx, '%s (%d samples)' % (tcase['routine'], tcase['n']), calls, 25, tcase)
    n = NCASES[ctx.tier] // ctx.nshards
    if ctx.shard % 8 in (3, 5):
        # size-dependent code paths: very long records (more than 2**16 samples), lengths not aligned to any power of two
        for attempt in range(3):
            N = int(gens.pick(rng, [65536, 70000, 100001, 140000])) + (int(rng.integers(0, 50)) if attempt else 0)
            x = rng.standard_normal(N)
            if ctx.shard % 8 == 3:
                io = {'stop_method': 'fixed', 'max_iters': int(rng.integers(1, 4)), 'env_step_size': 1}
            else:
                io = {'stop_method': 'rilling', 'rilling_thresh': gens.pick(rng, [(0.05, 0.5, 0.05), (0.1, 1.0, 0.2)]), 'max_iters': 1000, 'env_step_size': 1}
            case = {'kind': 'gni', 'family': 'noise-very-long', 'seed': int(rng.integers(1 << 30)), 'n': N, 'imf_opts': io,
                    'envelope_opts': {'interp_method': 'splrep'}, 'extrema_opts': {}, 'pow2': [-1.0, 0.25], 'real': 3.7}
            case['x'] = np.random.default_rng(case['seed']).standard_normal(N)
            before = ctx.counters.get('gni_approx_reverse:splrep', 0)
            check_gni(ctx, case, wd=400)
            if ctx.counters.get('gni_approx_reverse:splrep', 0) > before:
                ctx.count('very_long_records_compared')
                break
    for i in range(n):
        if ctx.out_of_time():
            break
        r = rng.random()
        routine = 'gni' if r < .6 else ('sift' if r < .85 else 'mask')
        case = gen_case(rng, routine)
        if routine == 'gni' and rng.random() < .06 and not case.get('uint'):
            routine = case['kind'] = 'pad0'
        CHECK[routine](ctx, case)
        if i < 3:
            ctx.sample({k: (np.round(v[:5], 4) if k == 'x' else v) for k, v in case.items()})


def finalize(agg, tier):
    c = agg['counters']
    r = []
    for k, need in [('gni_exact_positive', 200), ('gni_exact_negative', 200), ('sift_exact_positive', 100),
                    ('sift_exact_negative', 100), ('mask_exact_comparisons', 100)]:
        if c.get(k, 0) < need:
            r.append('%s: %d < %d' % (k, c.get(k, 0), need))
    for meth in ['splrep', 'pchip', 'mono_pchip']:
        for k in ['gni_approx_scale:', 'gni_approx_reverse:']:
            if c.get(k + meth, 0) < 100:
                r.append('%s%s: %d < 100 non-excluded comparisons' % (k, meth, c.get(k + meth, 0)))
    if c.get('sift_approx_imfs_compared:splrep', 0) < 100:
        r.append('fewer than 100 sift components compared approximately (splrep)')
    return r


def replay(ctx, case):
    if case.get('kind') == 'threads':
        for _ in range(5):
            calls, tcase = thread_cases(case['seed'])
            if not thread_probe(ctx, '%s (%d samples)' % (tcase['routine'], tcase['n']), calls, 25, tcase):
                break
        return
    if case.get('family') == 'noise-very-long':
        case = dict(case, x=np.random.default_rng(case['seed']).standard_normal(case['n']))
        return check_gni(ctx, case, wd=600)
    CHECK[case['kind']](ctx, case)
