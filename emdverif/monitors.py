"""Instrumentation installed from the harness on the *live* emd modules (no repository edits):
module attributes are replaced by recording wrappers. Internal calls in emd/sift.py go through
module globals and Pool workers are forked after installation and unpickle functions by
module+qualname, so every process of a top-level call runs the wrappers."""
import contextlib
import functools
import json
import os
import sys
import time

import numpy as np

from .harness import MonitorAbort, digest, jsonable


@contextlib.contextmanager
def patched(pairs):
    """pairs: list of (module, attr, new_obj). Restores on exit."""
    saved = []
    try:
        for mod, name, new in pairs:
            saved.append((mod, name, getattr(mod, name)))
            setattr(mod, name, new)
        yield
    finally:
        for mod, name, old in reversed(saved):
            setattr(mod, name, old)


# ---------------------------------------------------------------------------------
# in-process probe of the classic sift: exit path of every extraction + bounded iteration

class SiftProbe:
    """Wraps emd.sift.get_next_imf and emd.sift.interp_envelope in this process.

    For every get_next_imf invocation records: number of envelope evaluations, whether an
    envelope was missing, the returned flag, and classifies the exit path
      A  envelopes missing on the first iteration (input returned, nothing removed)
      B  envelopes missing after >= 1 mean removals
      C  the stopping rule fired
      R  raised
    It also enforces the logical step bound: more than `bound(max_iters)` envelope evaluations
    inside one extraction aborts the call with MonitorAbort (termination decided on steps)."""

    def __init__(self, sift_mod, slack=4, keep_inputs=False):
        self.S = sift_mod
        self.keep_inputs = keep_inputs
        self.records = []
        self._cur = None
        self.slack = slack
        self._orig_gni = sift_mod.get_next_imf
        self._orig_env = sift_mod.interp_envelope
        self.aborted = 0

    def _env(self, *a, **k):
        cur = self._cur
        if cur is not None:
            cur['env'] += 1
            if cur['env'] > cur['bound']:
                self.aborted += 1
                raise MonitorAbort('envelope evaluations %d > bound %d' % (cur['env'], cur['bound']))
        r = self._orig_env(*a, **k)
        if cur is not None and r is None:
            cur['none'] += 1
        return r

    def _gni(self, X, *a, **k):
        names = ['env_step_size', 'max_iters', 'energy_thresh', 'stop_method']
        kw = dict(zip(names, a))
        kw.update(k)
        mi = kw.get('max_iters', 1000)
        outer = self._cur
        rec = {'env': 0, 'none': 0, 'bound': 2 * (int(mi) + 1) + self.slack, 'max_iters': mi,
               'stop': kw.get('stop_method', 'sd')}
        if self.keep_inputs:
            rec['X'] = np.array(X, dtype=float).reshape(-1).copy()
            rec['kw'] = kw
        self._cur = rec
        try:
            out = self._orig_gni(X, *a, **k)
            rec['flag'] = bool(out[1])
            if rec['none'] > 0:
                rec['path'] = 'A' if rec['env'] <= 2 else 'B'
            else:
                rec['path'] = 'C'
            rec['iters'] = (rec['env'] + 1) // 2
            return out
        except BaseException as e:
            rec['path'] = 'R'
            rec['exc'] = type(e).__name__
            raise
        finally:
            self._cur = outer
            self.records.append(rec)

    def __enter__(self):
        probe = self

        @functools.wraps(self._orig_gni)
        def g(X, *a, **k):
            return probe._gni(X, *a, **k)

        @functools.wraps(self._orig_env)
        def e(*a, **k):
            return probe._env(*a, **k)
        self._cm = patched([(self.S, 'get_next_imf', g), (self.S, 'interp_envelope', e)])
        self._cm.__enter__()
        return self

    def __exit__(self, *exc):
        return self._cm.__exit__(*exc)

    def paths(self):
        return ''.join(r.get('path', '?') for r in self.records)


# ---------------------------------------------------------------------------------
# cross-process stage trace (C06, C07, C08): one JSONL file per pid

class StageTrace:
    """Wraps the named stage functions; every call, in whichever process it happens, appends one
    JSON line to <dir>/<pid>.jsonl. Arrays are recorded as digests (+ raw bytes on request)."""

    def __init__(self, trace_dir, targets, keep_arrays=(), pre_hook=None):
        """targets: list of (module, attr, stage_name).  keep_arrays: stage names whose first
        positional argument is stored in full (base64-free: as list) for offline recomputation."""
        self.dir = trace_dir
        self.targets = targets
        self.keep = set(keep_arrays)
        self.pre_hook = pre_hook
        self.call_id = None
        self.parent_pid = os.getpid()
        os.makedirs(trace_dir, exist_ok=True)
        self._seq = 0
        self._stack = []

    def _emit(self, rec):
        self._seq += 1
        rec['pid'] = os.getpid()
        rec['seq'] = self._seq
        rec['call'] = self.call_id
        rec['t'] = time.monotonic()
        line = json.dumps(rec) + '\n'
        fd = os.open(os.path.join(self.dir, '%d.jsonl' % rec['pid']), os.O_WRONLY | os.O_APPEND | os.O_CREAT, 0o644)
        try:
            os.write(fd, line.encode())
        finally:
            os.close(fd)

    def _make(self, orig, stage):
        import inspect
        try:
            sig = inspect.signature(orig)
        except (TypeError, ValueError):
            sig = None
        tr = self

        @functools.wraps(orig)
        def wrapper(*a, **k):
            rec = {'stage': stage}
            try:
                if sig is not None:
                    ba = sig.bind_partial(*a, **k)
                    eff = dict(ba.arguments)
                else:
                    eff = dict(k)
                arrs = {}
                kw = {}
                for name, v in eff.items():
                    if isinstance(v, np.ndarray):
                        arrs[name] = {'sha': digest(v), 'shape': list(v.shape)}
                        if stage in tr.keep and name in ('X',):
                            arrs[name]['data'] = np.asarray(v, dtype=float).reshape(-1).tolist()
                    else:
                        kw[name] = jsonable(v)
                rec['kw'] = kw
                rec['arr'] = arrs
            except Exception as e:  # never let the monitor break the call
                rec['bind_error'] = repr(e)
            rec['parent'] = tr._stack[-1] if tr._stack else None
            rec['depth'] = len(tr._stack)
            if tr.pre_hook is not None:
                tr.pre_hook(stage, rec)
            tr._emit(rec)
            tr._stack.append(stage)
            try:
                return orig(*a, **k)
            finally:
                tr._stack.pop()
        return wrapper

    def __enter__(self):
        pairs = []
        for mod, attr, stage in self.targets:
            if hasattr(mod, attr):
                pairs.append((mod, attr, self._make(getattr(mod, attr), stage)))
        self._cm = patched(pairs)
        self._cm.__enter__()
        return self

    def __exit__(self, *exc):
        return self._cm.__exit__(*exc)

    def begin(self, call_id):
        """Mark the start of a top-level call: clears old trace files (quiescent point)."""
        for fn in os.listdir(self.dir):
            if fn.endswith('.jsonl'):
                os.unlink(os.path.join(self.dir, fn))
        self.call_id = call_id
        self._seq = 0

    def collect(self):
        ev = []
        for fn in os.listdir(self.dir):
            if fn.endswith('.jsonl'):
                with open(os.path.join(self.dir, fn)) as f:
                    for line in f:
                        line = line.strip()
                        if line:
                            ev.append(json.loads(line))
        ev.sort(key=lambda r: (r['t'], r['pid'], r['seq']))
        return ev


# ---------------------------------------------------------------------------------
# mutation sanitizer

def deep_digest(o):
    if isinstance(o, np.ndarray):
        return ('nd', digest(o), o.shape, str(o.dtype), o.strides, bool(o.flags.writeable))
    if isinstance(o, dict):
        return ('dict', tuple((repr(k), deep_digest(v)) for k, v in o.items()))
    if isinstance(o, (list, tuple)):
        return (type(o).__name__, tuple(deep_digest(v) for v in o))
    return ('v', repr(o))


def call_sanitized(func, args, kwargs):
    """Calls func(*args, **kwargs); returns (result_or_None, exception_or_None, mutated_names)."""
    before = [deep_digest(a) for a in args], {k: deep_digest(v) for k, v in kwargs.items()}
    res, exc = None, None
    try:
        res = func(*args, **kwargs)
    except Exception as e:
        exc = e
    after = [deep_digest(a) for a in args], {k: deep_digest(v) for k, v in kwargs.items()}
    mutated = ['arg%d' % i for i, (b, a) in enumerate(zip(before[0], after[0])) if a != b]
    mutated += [k for k in before[1] if before[1][k] != after[1][k]]
    return res, exc, mutated


# ---------------------------------------------------------------------------------
# fault injection: a clock that runs fast

class FastClock:
    """While active, every clock of the `time` module that measures elapsed time advances by `step` seconds per reading
    (a loaded machine, a suspended laptop, a very long recording): results must not depend on how long a call took."""
    NAMES = ('monotonic', 'time', 'perf_counter', 'process_time')

    def __init__(self, step=1200.0):
        self.step = step
        self.readings = 0

    def __enter__(self):
        import time
        self._time = time
        self.saved = {n: getattr(time, n) for n in self.NAMES}
        self.saved.update({n + '_ns': getattr(time, n + '_ns') for n in self.NAMES})
        base = {n: f() for n, f in self.saved.items()}

        def make(n, ns):
            def clock():
                self.readings += 1
                return base[n] + (int(self.readings * self.step * 1e9) if ns else self.readings * self.step)
            return clock
        for n in list(self.saved):
            setattr(time, n, make(n, n.endswith('_ns')))
        return self

    def __exit__(self, *exc):
        for n, f in self.saved.items():
            setattr(self._time, n, f)
        return False


# ---------------------------------------------------------------------------------
# logical-step bound on the padding loop of get_padded_extrema

class PadStepMonitor:
    """Replaces the name `np` *inside emd.sift only* by a proxy whose `pad` counts calls between
    `arm(bound)` and `disarm()`; exceeding the bound raises MonitorAbort, so a padding loop that
    never reaches both edges is decided on logical steps rather than by a wall-clock timeout."""

    class _Proxy:
        def __init__(self, real, mon):
            self.__dict__['_real'] = real
            self.__dict__['_mon'] = mon

        def __getattr__(self, k):
            return getattr(self.__dict__['_real'], k)

        def pad(self, *a, **k):
            m = self.__dict__['_mon']
            if m.bound is not None:
                m.calls += 1
                if m.calls > m.bound:
                    m.aborted += 1
                    raise MonitorAbort('np.pad called %d times inside one extrema/envelope call (bound %d)' % (m.calls, m.bound))
            return self.__dict__['_real'].pad(*a, **k)

    def __init__(self, sift_mod):
        self.S = sift_mod
        self.bound = None
        self.calls = 0
        self.aborted = 0
        self.max_calls = 0

    def __enter__(self):
        self._saved = self.S.np
        self.S.np = PadStepMonitor._Proxy(self._saved, self)
        return self

    def __exit__(self, *exc):
        self.S.np = self._saved

    def arm(self, n):
        # two np.pad calls (locations, magnitudes) per round; rounds needed <= n + 2
        self.max_calls = max(self.max_calls, self.calls)
        self.bound = 2 * (n + 3)
        self.calls = 0

    def disarm(self):
        self.max_calls = max(self.max_calls, self.calls)
        self.bound = None


# ---------------------------------------------------------------------------------
# fault injection: abort a call at an arbitrary statement (source-free failpoints, sys.monitoring, python >= 3.12)

class InjectedAbort(BaseException):
    """What a user's Ctrl-C, a MemoryError or a raising callback looks like to the code under test: the call is abandoned
    at some statement. BaseException so that `except Exception` inside the library cannot absorb it."""


class LineFailpoint:
    """Counts the statement-start events executed in code objects whose file name ends with one of `suffixes` while active;
    if `abort_at` is given, raises InjectedAbort when the abort_at-th such statement is about to run. Used as
        with LineFailpoint(('emd/spectra.py',)) as probe: f(...)          -> probe.lines = number of statements executed
        with LineFailpoint(('emd/spectra.py',), abort_at=k): f(...)       -> the call is abandoned at statement k
    Afterwards the next valid call must behave as if the abandoned one had never been made."""
    TOOL = 4

    def __init__(self, suffixes, abort_at=None):
        self.suffixes = tuple(suffixes)
        self.abort_at = abort_at
        self.lines = 0
        self.fired = None
        self.pid = os.getpid()

    def _line(self, code, lineno):
        mon = sys.monitoring
        if not code.co_filename.endswith(self.suffixes) or os.getpid() != self.pid:
            # (a worker process forked while the failpoint is armed inherits it: it must never fire there - a pool whose
            # worker dies waits for ever)
            return mon.DISABLE
        self.lines += 1
        if self.abort_at is not None and self.lines == self.abort_at and self.fired is None:
            self.fired = (code.co_filename, code.co_name, lineno)
            raise InjectedAbort('%s:%s line %d' % (code.co_filename.rsplit('/', 2)[-1], code.co_name, lineno))
        return None

    def __enter__(self):
        mon = sys.monitoring
        mon.use_tool_id(self.TOOL, 'emdverif-failpoint')
        mon.register_callback(self.TOOL, mon.events.LINE, self._line)
        mon.set_events(self.TOOL, mon.events.LINE)
        mon.restart_events()
        return self

    def __exit__(self, *exc):
        mon = sys.monitoring
        mon.set_events(self.TOOL, 0)
        mon.register_callback(self.TOOL, mon.events.LINE, None)
        mon.free_tool_id(self.TOOL)
        return False


def abort_then_call(suffixes, aborted_call, next_call, points, rng):
    """Abandons `aborted_call()` at up to `points` different statements (chosen over its whole run) and, after each, runs
    `next_call()`. Returns (number of statements in one run, list of (where, result_of_next_call or exception))."""
    with LineFailpoint(suffixes) as probe:
        try:
            aborted_call()
        except Exception:
            pass
    n = probe.lines
    out = []
    if n == 0:
        return 0, out
    ks = sorted(set(int(k) for k in rng.integers(1, n + 1, points))) if n > points else list(range(1, n + 1))
    for k in ks:
        fp = LineFailpoint(suffixes, abort_at=k)
        try:
            with fp:
                aborted_call()
        except InjectedAbort:
            pass
        except Exception:
            pass
        if fp.fired is None:
            continue
        try:
            out.append((fp.fired, next_call()))
        except Exception as e:        # noqa
            out.append((fp.fired, e))
    return n, out


# ---------------------------------------------------------------------------------
# schedule exploration: the same calls from several threads of one interpreter

def result_digest(res):
    from .harness import digest
    if hasattr(res, 'toarray'):
        res = res.toarray()
    if isinstance(res, (tuple, list)):
        return [result_digest(v) for v in res]
    if isinstance(res, dict):
        return {str(k): result_digest(res[k]) for k in sorted(res, key=str)}
    if res is None:
        return None
    a = np.asarray(res)
    if a.dtype == object:
        return [result_digest(v) for v in a.reshape(-1)]
    return [digest(np.ascontiguousarray(a)), list(a.shape)]


def run_in_threads(calls, reps, interval=1e-5):
    """`calls`: zero-argument deterministic callables. Each is first run alone, then all run concurrently (one thread per call,
    `reps` repetitions each) while the interpreter is made to switch threads every `interval` seconds. Returns
    (number of concurrent calls made, list of descriptions of calls whose result differed from the one obtained alone)."""
    import threading
    alone = [result_digest(c()) for c in calls]
    bad = []
    made = [0]

    def worker(k):
        for _ in range(reps):
            try:
                got = result_digest(calls[k]())
                made[0] += 1
                if got != alone[k]:
                    bad.append('thread %d got a different result than when running alone' % k)
                    return
            except Exception as e:
                bad.append('thread %d: %s: %s' % (k, type(e).__name__, str(e)[:100]))
                return
    old = sys.getswitchinterval()
    sys.setswitchinterval(interval)
    try:
        th = [threading.Thread(target=worker, args=(k,)) for k in range(len(calls))]
        for t in th:
            t.start()
        for t in th:
            t.join()
    finally:
        sys.setswitchinterval(old)
    return made[0], bad


def thread_probe(ctx, what, calls, reps, case, interval=1e-5):
    """run_in_threads + bookkeeping: counts the concurrent calls made, reports a `threads` violation for `what`."""
    from .harness import digest
    made, bad = run_in_threads(calls, reps, interval)
    ctx.count('concurrent_thread_calls', made)
    ctx.case(digest('threads', what, repr(sorted(case.items()))), True)
    if bad:
        ctx.violation('threads:' + what.split(' ')[0], '%s called from %d threads of one interpreter at once: %s (each call is deterministic and gives '
                      'the expected result when run alone)' % (what, len(calls), bad[0]), dict(case, kind='threads'))
        return False
    return True


@contextlib.contextmanager
def in_process_pools():
    """While active, the worker pools the library creates (multiprocessing.Pool) are thread pools of this process
    (multiprocessing.dummy.Pool, same interface). Used by the thread probes: forking worker processes out of a process that is
    running several threads is a hazard of its own (locks held by other threads at fork time), and not what is probed."""
    import multiprocessing
    import multiprocessing.dummy
    old, oldcp = multiprocessing.Pool, multiprocessing.current_process
    real = oldcp()

    class _AsWorker:
        # (the library reads the worker number of the current process for a log message)
        _identity = (1,)
        name, pid, daemon = real.name, os.getpid(), False

    multiprocessing.Pool = multiprocessing.dummy.Pool
    multiprocessing.current_process = lambda: _AsWorker
    try:
        yield
    finally:
        multiprocessing.Pool = old
        multiprocessing.current_process = oldcp
