"""Seeded generators: signals, sift option sets, phases, label vectors."""
import numpy as np

FAMILIES = ['noise', 'walk', 'tones', 'amfm', 'int', 'const', 'ramp', 'periodic', 'palindrome', 'steps', 'spikes', 'transient']
OSC_FAMILIES = ['noise', 'walk', 'tones', 'amfm', 'int', 'periodic', 'palindrome']


def signal(rng, kind, n):
    t = np.arange(n)
    if kind == 'noise':
        return rng.standard_normal(n)
    if kind == 'walk':
        return np.cumsum(rng.standard_normal(n))
    if kind == 'tones':
        return (np.sin(2 * np.pi * t / rng.uniform(5, 20) + rng.uniform(0, 6))
                + .5 * np.sin(2 * np.pi * t / rng.uniform(30, 80) + rng.uniform(0, 6))
                + t / n * rng.uniform(-2, 2))
    if kind == 'amfm':
        return ((1 + .5 * np.sin(2 * np.pi * t / n * rng.uniform(1, 4)))
                * np.sin(2 * np.pi * t / rng.uniform(8, 16) + 2 * np.sin(2 * np.pi * t / n * rng.uniform(1, 3))))
    if kind == 'int':
        return rng.integers(-3, 4, n).astype(float)
    if kind == 'const':
        return np.full(n, rng.uniform(-2, 2))
    if kind == 'ramp':
        return np.linspace(rng.uniform(-1, 0), rng.uniform(0.1, 1), n)
    # structured content that random data rarely has
    if kind == 'periodic':
        # an exactly repeating block (integer period), optionally on a trend
        per = int(rng.integers(4, 24))
        block = rng.standard_normal(per) if rng.random() < .5 else np.sin(2 * np.pi * np.arange(per) / per) + .4 * np.sin(4 * np.pi * np.arange(per) / per + 1)
        x = np.tile(block, n // per + 1)[:n]
        return x + (t / n * rng.uniform(-1, 1) if rng.random() < .3 else 0)
    if kind == 'palindrome':
        half = np.cumsum(rng.standard_normal((n + 1) // 2)) if rng.random() < .5 else rng.standard_normal((n + 1) // 2)
        return np.concatenate([half, half[::-1]])[:n]
    if kind == 'steps':
        # piecewise constant: long runs of a repeated value
        nseg = max(2, n // int(rng.integers(3, 12)))
        lens = rng.multinomial(n, np.ones(nseg) / nseg)
        return np.concatenate([np.full(L, v) for L, v in zip(lens, rng.integers(-4, 5, nseg).astype(float))])[:n] if lens.sum() >= n else np.zeros(n)
    if kind == 'transient':
        # a short burst at one end followed by a long extremum-free drift
        x = rng.uniform(-.02, .02) * t + (rng.uniform(-1e-4, 1e-4) * t ** 2 if rng.random() < .5 else 0)
        b = np.array([0, 1, .9, 1, 0, .6, .55, .7][:min(int(rng.integers(4, 9)), n)]) * float(rng.uniform(.5, 2))
        if rng.random() < .5:
            x[:len(b)] += b
        else:
            x[-len(b):] += b
        return x
    if kind == 'spikes':
        # exactly flat apart from a few isolated impulses / short transients
        x = np.full(n, float(rng.uniform(-1, 1)) if rng.random() < .5 else 0.0)
        for _ in range(int(rng.integers(1, 6))):
            i = int(rng.integers(1, n - 1))
            x[i:i + int(rng.integers(1, 4))] += float(rng.uniform(.5, 2)) * float(pick(rng, [-1, 1]))
        return x
    raise ValueError(kind)


def pick(rng, seq):
    return seq[int(rng.integers(len(seq)))]


RILLING = [(0.05, 0.5, 0.05), (0.1, 1.0, 0.2)]


def imf_opts(rng, stop=None, fixed_iters=(1, 10)):
    stop = stop or pick(rng, ['sd', 'rilling', 'fixed'])
    o = {'stop_method': stop, 'env_step_size': float(pick(rng, [1, .7, .3]))}
    if stop == 'sd':
        o['sd_thresh'] = float(pick(rng, [.05, .1, .3]))
    elif stop == 'rilling':
        o['rilling_thresh'] = pick(rng, RILLING)
    else:
        o['max_iters'] = int(rng.integers(fixed_iters[0], fixed_iters[1] + 1))
    return o


def env_opts(rng, interp=None):
    return {'interp_method': interp or pick(rng, ['splrep', 'pchip', 'mono_pchip'])}


def ext_opts(rng, pads=(1, 2, 3, 4), parabolic=False):
    o = {'pad_width': int(pick(rng, list(pads)))}
    if parabolic and rng.random() < .5:
        o['parabolic_extrema'] = True
    return o


def describe(kind, n, io, eo, xo):
    return {'family': kind, 'n': int(n), 'imf_opts': io, 'envelope_opts': eo, 'extrema_opts': xo}


# ---------------------------------------------------------------------------------
# phases

def synthetic_phase(rng, n=None, ncycles=None, noise=0.0, reversals=False):
    """Wrapped phase in [0, 2pi) with variable cycle lengths; optionally noisy / reversing."""
    if ncycles is None:
        ncycles = int(rng.integers(1, 9))
    lens = rng.integers(6, 60, ncycles + 1)
    freq = np.concatenate([np.full(L, 2 * np.pi / L) * rng.uniform(.7, 1.3, L) for L in lens])
    if reversals:
        k = int(rng.integers(0, 4))
        for _ in range(k):
            i = int(rng.integers(0, len(freq)))
            freq[i:i + int(rng.integers(1, 4))] *= -1
    ph = rng.uniform(0, 2 * np.pi) + np.cumsum(freq)
    if noise:
        ph = ph + noise * rng.standard_normal(len(ph))
    if n is not None:
        ph = ph[:n]
    return np.mod(ph, 2 * np.pi)


def label_vector(rng, ncycles=None, gaps=True):
    """Cycle label vector: consecutive labels 0..K-1, each contiguous, optional -1 gaps anywhere."""
    if ncycles is None:
        ncycles = int(rng.integers(1, 9))
    parts = []
    if gaps and rng.random() < .5:
        parts.append(np.full(int(rng.integers(1, 6)), -1))
    for k in range(ncycles):
        parts.append(np.full(int(rng.integers(1, 20)), k))
        if gaps and rng.random() < .4:
            parts.append(np.full(int(rng.integers(1, 6)), -1))
    return np.concatenate(parts).astype(int)


# ---------------------------------------------------------------------------------
# memory layouts

LAYOUTS = ['C', 'F', 'T', 'strided']
# the same values and dtype kind in an unusual but valid container (chosen at random wherever a 'strided' view is asked for)
VIEWS = ['strided', 'strided', 'negstride', 'bigendian', 'subclass', 'masked', 'memmap', 'readonly']


class _Sub(np.ndarray):
    """A trivial ndarray subclass (what np.asarray-less code paths may propagate)."""


_MM = [0]


def _view(a, kind):
    import os
    if kind == 'negstride':
        return a[::-1].copy()[::-1]
    if kind == 'bigendian':
        return a.astype(a.dtype.newbyteorder('>')) if a.dtype.kind in 'fiu' and a.dtype.itemsize > 1 else a
    if kind == 'subclass':
        return a.copy().view(_Sub)
    if kind == 'masked':
        return np.ma.MaskedArray(a.copy())            # (nothing masked)
    if kind == 'readonly':
        b = a.copy()
        b.setflags(write=False)
        return b
    if kind == 'memmap':
        if a.size == 0 or a.dtype.kind not in 'fiub':
            return a
        from .harness import WORK
        os.makedirs(WORK, exist_ok=True)
        _MM[0] += 1
        fn = os.path.join(WORK, 'mm_%d_%d.dat' % (os.getpid(), _MM[0]))
        m = np.memmap(fn, dtype=a.dtype, mode='w+', shape=a.shape)
        m[...] = a
        m.flush()
        r = np.memmap(fn, dtype=a.dtype, mode='r', shape=a.shape)
        os.unlink(fn)                                 # the mapping outlives the directory entry
        return r
    raise ValueError(kind)


def relayout(rng, a, kind=None, native=False, exclude=()):
    """Same values and shape, different memory layout: C-contiguous, Fortran-ordered, a transposed view of a
    per-column stack (first two axes swapped in memory), or a strided view into a larger buffer."""
    kind = kind or LAYOUTS[int(rng.integers(len(LAYOUTS)))]
    if a.ndim < 2 and kind in ('F', 'T'):
        kind = 'strided'
    if kind == 'strided' and rng is not None:
        kind = VIEWS[int(rng.integers(len(VIEWS)))]
        if (native and kind == 'bigendian') or kind in exclude:
            kind = 'negstride'
    if kind in VIEWS and kind != 'strided':
        return _view(a, kind), kind
    if kind == 'F':
        return np.asfortranarray(a), kind
    if kind == 'T':
        axes = [1, 0] + list(range(2, a.ndim))
        return np.ascontiguousarray(a.transpose(axes)).transpose(axes), kind
    if kind == 'strided':
        big = np.zeros(tuple(2 * n for n in a.shape), dtype=a.dtype)
        view = big[tuple(slice(0, 2 * n, 2) for n in a.shape)]
        view[...] = a
        return view, kind
    return np.ascontiguousarray(a), 'C'


def present(rng, x, dtypes=('int', 'float32'), p_plain=.7):
    """A different *presentation* of a signal: returns (array_to_pass, canonical_float64_values, tag).
    The values are first made exactly representable in the target dtype, so the canonical float64 copy holds exactly
    the numbers the routine sees; layout variants are strided views into a larger buffer."""
    r = rng.random()
    x = np.asarray(x)
    if r < p_plain:
        return x, np.asarray(x, dtype=float), 'plain'
    kinds = list(dtypes) + ['strided']
    kind = kinds[int(rng.integers(len(kinds)))]
    if kind == 'int':
        sc = max(np.abs(x).max(), 1e-12)
        xi = np.round(np.asarray(x, dtype=float) / sc * float(pick(rng, [40, 1000])))
        if rng.random() < .35:
            # raw counts: unsigned integers starting at 0 (so that the smallest values - the deepest troughs - are exactly 0),
            # sometimes sparse (most samples 0 or 1 above the floor)
            xi = xi - xi.min()
            if rng.random() < .4:
                xi = np.floor(xi / max(xi.max(), 1) * float(pick(rng, [3, 6, 12])))
            xu = xi.astype(pick(rng, [np.uint8, np.uint16, np.uint32, np.uint64]) if xi.max() < 256 else pick(rng, [np.uint16, np.uint32, np.uint64]))
            return xu, xu.astype(float), 'uint'
        dt = pick(rng, [np.int64, np.int32, np.int16])
        if rng.random() < .4:
            # amplitudes whose SQUARE no longer fits the type (the values themselves do)
            xi = np.round(xi / max(np.abs(xi).max(), 1) * {np.int16: 30000, np.int32: 2000000, np.int64: 5000000000}[dt])
        xi = xi.astype(dt)
        return xi, xi.astype(float), 'int'
    if kind == 'float32':
        x32 = np.asarray(x, dtype=np.float32)
        return x32, x32.astype(float), 'float32'
    if kind == 'float16':
        # half precision (sensor / image data): finite values of ordinary size - whose SUM over the record can exceed the largest half
        a = np.asarray(x, dtype=float)
        a = a / max(np.abs(a).max(), 1e-12) * float(pick(rng, [1, 40, 300, 2000]))
        x16 = a.astype(np.float16)
        return x16, x16.astype(float), 'float16'
    xs, tag = relayout(rng, np.asarray(x), 'strided')
    return xs, np.asarray(x, dtype=float), tag
