"""./check <property> [quick|thorough] [--seed N] [--shards N] | --replay <file>"""
import argparse
import os
import sys

from . import harness


def main(argv=None):
    ap = argparse.ArgumentParser(prog='check')
    ap.add_argument('prop', nargs='?')
    ap.add_argument('tier', nargs='?', choices=['quick', 'thorough'])
    ap.add_argument('--tier', dest='tier_opt', choices=['quick', 'thorough'])
    ap.add_argument('--seed', type=int, default=None)
    ap.add_argument('--shard', default=None, help='i/n (internal)')
    ap.add_argument('--shards', type=int, default=None)
    ap.add_argument('--out', default=None)
    ap.add_argument('--replay', default=None)
    a = ap.parse_args(argv)

    if a.replay:
        return harness.run_replay(a.replay)
    if not a.prop:
        ap.error('property id required')
    tier = a.tier or a.tier_opt or os.environ.get('VERIF_TIER') or 'quick'
    if tier not in ('quick', 'thorough'):
        tier = 'quick'
    seed = a.seed if a.seed is not None else int(os.environ.get('VERIF_SEED', '0') or 0)
    if a.shard:
        i, n = a.shard.split('/')
        return harness.run_shard(a.prop, tier, seed, int(i), int(n), a.out)
    return harness.run_property(a.prop, tier, seed, a.shards)


if __name__ == '__main__':
    sys.exit(main())
