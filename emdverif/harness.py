"""Shared harness: bootstrap of the repository under test, shard runner, watchdogs,
three-valued verdicts, evidence / replay writers, known-findings handling.

Nothing in here knows about a particular property; see props/Cxx.py.
"""
import contextlib
import hashlib
import importlib
import io
import json
import os
import signal
import subprocess
import sys
import time
import traceback

VERIF = os.path.dirname(os.path.dirname(os.path.abspath(__file__)))
REPO = os.environ.get('EMD_REPO', '/repo')
WORK = os.path.join(VERIF, '.work')
EVID = os.path.join(VERIF, 'evidence')
REPLAYS = os.path.join(VERIF, 'replays')
KNOWN = os.path.join(VERIF, 'known_findings.json')
NCPU = min(16, os.cpu_count() or 1)
_SUFFIX = os.environ.get('VERIF_WORK_SUFFIX', '')
if os.path.realpath(REPO) != '/repo' or _SUFFIX:
    # runs against a scratch copy (mutation validation): never touch the committed evidence
    _alt = os.path.join(WORK, 'alt', _SUFFIX or 'x')
    EVID = os.path.join(_alt, 'evidence')
    REPLAYS = os.path.join(_alt, 'replays')
    WORK = os.path.join(_alt, 'work')

EXIT_HELD, EXIT_VIOLATION, EXIT_INCONCLUSIVE = 0, 1, 2


# ----------------------------------------------------------------------------------
# bootstrap

def bootstrap(require_fork=True):
    """Import emd from the working tree of REPO (never from a stale install) and quieten it."""
    import warnings
    warnings.simplefilter('ignore')
    if REPO not in sys.path[:1]:
        sys.path.insert(0, REPO)
    import numpy as np
    np.seterr(all='ignore')
    import emd
    here = os.path.realpath(os.path.dirname(emd.__file__))
    want = os.path.realpath(os.path.join(REPO, 'emd'))
    if here != want:
        raise RuntimeError('emd imported from %s, expected %s' % (here, want))
    import multiprocessing as mp
    if require_fork and mp.get_start_method() != 'fork':
        raise RuntimeError('start method is not fork; worker-side monitors would be blind')
    return emd


# ----------------------------------------------------------------------------------
# small utilities used by every property

class WatchdogTimeout(BaseException):
    """Raised by the per-case SIGALRM watchdog. BaseException so that `except Exception`
    in code under test cannot swallow it."""


class MonitorAbort(BaseException):
    """Raised by a logical-step monitor to stop a call that exceeded its step bound."""


def _alarm(signum, frame):
    raise WatchdogTimeout()


@contextlib.contextmanager
def watchdog(seconds):
    """Per-case watchdog: fires after `seconds` of CPU time of this process (a logical measure, independent of machine load) or
    after 4 x `seconds` of wall-clock time (a call blocked on worker processes uses no CPU here). Firing = that case is inconclusive."""
    old = signal.signal(signal.SIGALRM, _alarm)
    oldp = signal.signal(signal.SIGPROF, _alarm)
    signal.setitimer(signal.ITIMER_REAL, 4 * seconds)
    signal.setitimer(signal.ITIMER_PROF, seconds)
    try:
        yield
    finally:
        signal.setitimer(signal.ITIMER_PROF, 0)
        signal.setitimer(signal.ITIMER_REAL, 0)
        signal.signal(signal.SIGPROF, oldp)
        signal.signal(signal.SIGALRM, old)


@contextlib.contextmanager
def quiet():
    """Swallow stdout (the library prints in a few places)."""
    old = sys.stdout
    sys.stdout = io.StringIO()
    try:
        yield
    finally:
        sys.stdout = old


def digest(*objs):
    import numpy as np
    h = hashlib.sha1()
    for o in objs:
        if isinstance(o, np.ndarray):
            h.update(str(o.shape).encode())
            h.update(str(o.dtype).encode())
            h.update(np.ascontiguousarray(o).tobytes())
        else:
            h.update(repr(o).encode())
        h.update(b'|')
    return h.hexdigest()[:16]


def jsonable(o):
    import numpy as np
    if isinstance(o, np.ndarray):
        return {'__nd__': o.tolist(), 'dtype': str(o.dtype), 'shape': list(o.shape)}
    if isinstance(o, (np.floating,)):
        return float(o)
    if isinstance(o, (np.integer,)):
        return int(o)
    if isinstance(o, (np.bool_,)):
        return bool(o)
    if isinstance(o, dict):
        return {str(k): jsonable(v) for k, v in o.items()}
    if isinstance(o, tuple):
        return {'__tuple__': [jsonable(v) for v in o]}
    if isinstance(o, (list,)):
        return [jsonable(v) for v in o]
    if isinstance(o, float):
        if o != o:
            return {'__float__': 'nan'}
        if o in (float('inf'), float('-inf')):
            return {'__float__': 'inf' if o > 0 else '-inf'}
        return o
    if o is None or isinstance(o, (int, str, bool)):
        return o
    return repr(o)


def unjson(o):
    import numpy as np
    if isinstance(o, dict):
        if '__nd__' in o:
            return np.array(o['__nd__'], dtype=o['dtype']).reshape(o['shape'])
        if '__tuple__' in o:
            return tuple(unjson(v) for v in o['__tuple__'])
        if '__float__' in o:
            return float(o['__float__'])
        return {k: unjson(v) for k, v in o.items()}
    if isinstance(o, list):
        return [unjson(v) for v in o]
    return o


def short(o, n=400):
    s = json.dumps(jsonable(o)) if not isinstance(o, str) else o
    return s if len(s) <= n else s[:n] + '...'


# ----------------------------------------------------------------------------------
# per-shard recording context

_WALL = time.time          # the real clock, whatever a fault-injecting monitor does to the `time` module later


def _cpu():
    """CPU seconds used by this process and the child processes it has already reaped."""
    t = os.times()
    return t[0] + t[1] + t[2] + t[3]


class Ctx:
    # The workload budget is counted in CPU seconds (a logical measure: the same number of cases is run on a loaded machine as
    # on an idle one); a generous wall-clock cap of WALL_CAP x budget only keeps a run from hanging.
    WALL_CAP = 4.0
    MAX_SET = 400
    MAX_SAMPLES = 4
    MAX_VIOL_PER_KEY = 3

    def __init__(self, prop, tier, seed, shard, nshards, budget_s):
        import numpy as np
        self.prop, self.tier, self.seed = prop, tier, seed
        self.shard, self.nshards = shard, nshards
        self.t0 = _WALL()
        self.c0 = _cpu()
        self.budget_s = budget_s
        self.evaluations = 0
        self.digests = set()
        self.counters = {}
        self.maxima = {}
        self.sets = {}
        self.samples = []
        self.violations = []
        self._vcount = {}
        self.notes = []
        self.replaying = False
        num = int(prop[1:])
        self.rng = np.random.default_rng(np.random.SeedSequence([seed, num, shard]))

    # --- budget -----------------------------------------------------------------
    def time_left(self):
        return min(self.budget_s - (_cpu() - self.c0), self.WALL_CAP * self.budget_s - (_WALL() - self.t0))

    def out_of_time(self):
        if self.time_left() <= 0:
            self.counters['stopped_early'] = 1
            return True
        return False

    # --- recording --------------------------------------------------------------
    def count(self, name, k=1):
        self.counters[name] = self.counters.get(name, 0) + int(k)

    def maxi(self, name, v):
        v = float(v)
        if v == v and v > self.maxima.get(name, float('-inf')):
            self.maxima[name] = v

    def add(self, name, item):
        s = self.sets.setdefault(name, set())
        if len(s) < self.MAX_SET:
            s.add(item if isinstance(item, (str, int)) else json.dumps(jsonable(item), sort_keys=True))

    def case(self, dig, nontrivial=True):
        """One evaluated case. `dig` identifies it; counted as distinct+non-trivial if flagged."""
        self.evaluations += 1
        if nontrivial:
            self.digests.add(dig if isinstance(dig, str) else digest(dig))

    def sample(self, obj):
        if len(self.samples) < self.MAX_SAMPLES:
            self.samples.append(short(obj, 600))

    def violation(self, key, what, case):
        """key: classifier of the *mechanism* (stable across seeds); case: replayable dict."""
        n = self._vcount.get(key, 0)
        self._vcount[key] = n + 1
        if n < self.MAX_VIOL_PER_KEY:
            self.violations.append({'key': key, 'what': what, 'case': jsonable(case)})

    def note(self, s):
        if len(self.notes) < 20:
            self.notes.append(s)

    def dump(self):
        return {
            'shard': self.shard,
            'evaluations': self.evaluations,
            'digests': sorted(self.digests),
            'counters': self.counters,
            'maxima': self.maxima,
            'sets': {k: sorted(v) for k, v in self.sets.items()},
            'samples': self.samples,
            'violations': self.violations,
            'vcount': self._vcount,
            'notes': self.notes,
            'wall_s': _WALL() - self.t0,
            'cpu_s': _cpu() - self.c0,
        }


# ----------------------------------------------------------------------------------
# running

def load_prop(pid):
    return importlib.import_module('emdverif.props.%s' % pid)


def tier_budget(mod, tier):
    b = getattr(mod, 'BUDGET_S', {'quick': 60, 'thorough': 420})
    return b[tier]


def run_shard(pid, tier, seed, shard, nshards, out):
    bootstrap()
    mod = load_prop(pid)
    ctx = Ctx(pid, tier, seed, shard, nshards, tier_budget(mod, tier))
    err = None
    lg = getattr(mod, 'LOGGER_ON_ODD_SHARDS', False)
    if (lg is True and shard % 2 == 1) or (lg == 'quarter' and shard % 4 == 3):
        # process-global logger state that an earlier step of a session may have left behind: odd shards run the whole
        # workload with the emd logger set up (the 'emd' logger itself then works at DEBUG, console output to a null sink)
        setup_emd_logger()
        ctx.count('shards_with_logger_set_up')
    if getattr(mod, 'SESSION_NOISE', False):
        session_noise(ctx.rng)
        ctx.count('shards_started_after_unrelated_session_activity')
    if getattr(mod, 'STRICT_WARNINGS', True) and shard % 4 == 2:
        # the caller's warnings policy is the caller's: a quarter of the shards run the whole workload in a session that turns the
        # warning categories a library itself issues (deprecation, future, user warnings) into errors. Numerical RuntimeWarnings
        # stay as they are (numpy / scipy issue them on legitimate degenerate data).
        import warnings
        for cat in (DeprecationWarning, PendingDeprecationWarning, FutureWarning, UserWarning):
            warnings.filterwarnings('error', category=cat)
        ctx.count('shards_with_warnings_as_errors')
    try:
        mod.run_shard(ctx)
    except WatchdogTimeout:
        ctx.count('watchdog_escaped')
    except BaseException:  # harness/property bug: must not be mistaken for a verdict
        err = traceback.format_exc()
    d = ctx.dump()
    d['error'] = err
    with open(out, 'w') as f:
        json.dump(d, f)
    return 0 if err is None else 3


class _NullOut:
    def write(self, s):
        return len(s)

    def flush(self):
        pass


def setup_emd_logger(level='CRITICAL'):
    import emd
    old = sys.stdout
    sys.stdout = _NullOut()
    try:
        emd.logger.set_up(level=level)
    finally:
        sys.stdout = old


def session_noise(rng):
    """Things an interactive session may have done before the calls under test: a private configuration object
    customised in place (including its nested np.pad dictionaries) and never used, an unrelated container, a log call.
    None of it may influence later calls that do not receive those objects."""
    import numpy as np
    from emd import sift as S, cycles as C
    old = sys.stdout
    sys.stdout = _NullOut()
    try:
        for name in ('sift', 'mask_sift'):
            cfg = S.get_config(name)
            cfg['extrema_opts/mag_pad_opts/stat_length'] = int(rng.integers(2, 6))
            cfg['extrema_opts/mag_pad_opts/mode'] = ['mean', 'maximum', 'minimum'][int(rng.integers(3))]
            cfg['extrema_opts']['loc_pad_opts']['reflect_type'] = 'odd'
            cfg['imf_opts/sd_thresh'] = float(rng.uniform(.2, .5))
            cfg['imf_opts']['stop_method'] = 'rilling'
            cfg['envelope_opts/interp_method'] = 'mono_pchip'
            cfg['extrema_opts/pad_width'] = 4
            # ... and any mutable value the configuration hands out is edited in place, as `cfg[...][0] = v` would
            def scribble(d):
                for k in list(d.keys()):
                    v = d[k]
                    if isinstance(v, dict):
                        scribble(v)
                    elif isinstance(v, list) and v:
                        v[0] = type(v[0])(v[0] * 7 + 1) if isinstance(v[0], (int, float)) else v[0]
                        v.append(v[0])
                    elif isinstance(v, np.ndarray) and v.size and v.flags.writeable:
                        v += 1
            scribble(cfg)
        ph = np.mod(np.cumsum(rng.uniform(.2, .5, 200)), 2 * np.pi)
        C.Cycles(ph).compute_cycle_timings()
    finally:
        sys.stdout = old


def known_findings(pid):
    if not os.path.exists(KNOWN):
        return {}
    with open(KNOWN) as f:
        entries = json.load(f)
    return {e['key']: e for e in entries
            if e.get('property') == pid and e.get('status') == 'finding'}


def run_property(pid, tier, seed, nshards=None):
    t0 = time.time()
    mod = load_prop(pid)
    n = nshards or getattr(mod, 'SHARDS', {}).get(tier, NCPU)
    n = max(1, min(n, NCPU * 2))
    wdir = os.path.join(WORK, pid)
    os.makedirs(wdir, exist_ok=True)
    os.makedirs(EVID, exist_ok=True)
    for fn in os.listdir(wdir):
        if fn.startswith('shard_'):
            os.unlink(os.path.join(wdir, fn))
    budget = tier_budget(mod, tier)
    hard = budget * 6 + 300  # generous wall-clock watchdog per shard (above the shard's own 4 x budget wall cap): firing => inconclusive
    procs = []
    env = dict(os.environ)
    env['PYTHONPATH'] = VERIF + os.pathsep + env.get('PYTHONPATH', '')
    for i in range(n):
        out = os.path.join(wdir, 'shard_%d.json' % i)
        cmd = [sys.executable, '-W', 'ignore', '-m', 'emdverif.cli', pid, tier, '--seed', str(seed),
               '--shard', '%d/%d' % (i, n), '--out', out]
        log = open(os.path.join(wdir, 'shard_%d.log' % i), 'w')
        procs.append((i, out, subprocess.Popen(cmd, cwd=VERIF, env=env, stdout=log, stderr=subprocess.STDOUT), log))
    results, problems = [], []
    for i, out, p, log in procs:
        try:
            p.wait(timeout=max(1, hard - (time.time() - t0)))
        except subprocess.TimeoutExpired:
            p.kill()
            p.wait()
            problems.append('shard %d hit the wall-clock watchdog (%ds)' % (i, hard))
        log.close()
        if os.path.exists(out):
            with open(out) as f:
                r = json.load(f)
            if r.get('error'):
                problems.append('shard %d harness error: %s' % (i, r['error'].strip().splitlines()[-1]))
                sys.stderr.write(r['error'])
            results.append(r)
        else:
            problems.append('shard %d produced no result (exit %s)' % (i, p.returncode))
            try:
                with open(os.path.join(wdir, 'shard_%d.log' % i)) as f:
                    sys.stderr.write(f.read()[-3000:])
            except OSError:
                pass
    agg = aggregate(results)
    return conclude(mod, pid, tier, seed, agg, problems, time.time() - t0, n)


def aggregate(results):
    agg = {'evaluations': 0, 'digests': set(), 'counters': {}, 'maxima': {}, 'sets': {},
           'samples': [], 'violations': [], 'vcount': {}, 'notes': [], 'shard_wall_s': []}
    for r in results:
        agg['evaluations'] += r['evaluations']
        agg['digests'].update(r['digests'])
        for k, v in r['counters'].items():
            agg['counters'][k] = agg['counters'].get(k, 0) + v
        for k, v in r['maxima'].items():
            agg['maxima'][k] = max(agg['maxima'].get(k, float('-inf')), v)
        for k, v in r['sets'].items():
            agg['sets'].setdefault(k, set()).update(v)
        agg['samples'].extend(r['samples'][:2])
        agg['violations'].extend(r['violations'])
        for k, v in r['vcount'].items():
            agg['vcount'][k] = agg['vcount'].get(k, 0) + v
        agg['notes'].extend(r['notes'])
        agg['shard_wall_s'].append(round(r['wall_s'], 1))
    return agg


def conclude(mod, pid, tier, seed, agg, problems, wall, nshards):
    known = known_findings(pid)
    c = agg['counters']
    # min-observation thresholds (inconclusive if unmet)
    reasons = list(problems)
    try:
        reasons.extend(mod.finalize(agg, tier) or [])
    except Exception:
        reasons.append('finalize crashed: ' + traceback.format_exc().strip().splitlines()[-1])
    wd = c.get('watchdog', 0)
    if agg['evaluations'] and wd > 0.02 * agg['evaluations']:
        reasons.append('%d of %d cases hit the per-case watchdog (>2%%)' % (wd, agg['evaluations']))
    if agg['evaluations'] == 0:
        reasons.append('no case was evaluated')

    # violations, de-duplicated by mechanism key
    by_key = {}
    for v in agg['violations']:
        by_key.setdefault(v['key'], v)
    new, listed = [], []
    for k, v in sorted(by_key.items()):
        (listed if k in known else new).append(v)

    os.makedirs(os.path.join(REPLAYS, pid), exist_ok=True)
    lines = []
    for v in listed:
        lines.append('KNOWN-FINDING: property=%s %s [key=%s, %d occurrence(s) this run]'
                     % (pid, known[v['key']]['what'], v['key'], agg['vcount'].get(v['key'], 1)))
    for v in new:
        safe = ''.join(ch if ch.isalnum() or ch in '-_.' else '_' for ch in v['key'])[:80]
        path = os.path.join(REPLAYS, pid, safe + '.json')
        with open(path, 'w') as f:
            json.dump({'property': pid, 'key': v['key'], 'what': v['what'], 'case': v['case'],
                       'seed': seed, 'tier': tier, 'occurrences': agg['vcount'].get(v['key'], 1)}, f, indent=1)
        lines.append('VIOLATION property=%s replay=%s' % (pid, path))
        lines.append('  # %s: %s (x%d)' % (v['key'], v['what'][:300], agg['vcount'].get(v['key'], 1)))

    if new:
        verdict, code = 'violated', EXIT_VIOLATION
    elif reasons:
        verdict, code = 'inconclusive', EXIT_INCONCLUSIVE
    else:
        verdict, code = 'held-on-observed', EXIT_HELD

    cov = {
        'evaluations': int(agg['evaluations']),
        'distinct_nontrivial': len(agg['digests']),
        'rule': getattr(mod, 'RULE', ''),
        'samples': agg['samples'][:8] or ['<none>'],
        'exhaustive': bool(getattr(mod, 'EXHAUSTIVE', {}).get(tier, False)),
        'exhaustive_scope': getattr(mod, 'EXHAUSTIVE_SCOPE', {}).get(tier, ''),
        'verdict': verdict,
        'inconclusive_reasons': reasons,
        'counters': dict(sorted(c.items())),
        'maxima_observed': {k: v for k, v in sorted(agg['maxima'].items())},
        'observed_sets': {k: sorted(v)[:60] for k, v in sorted(agg['sets'].items())},
        'observed_set_sizes': {k: len(v) for k, v in sorted(agg['sets'].items())},
        'violation_keys_new': {v['key']: agg['vcount'].get(v['key'], 1) for v in new},
        'known_findings_seen': {v['key']: agg['vcount'].get(v['key'], 1) for v in listed},
        'shards': nshards,
        'shard_wall_s': agg['shard_wall_s'],
        'notes': agg['notes'][:20],
        'repo': REPO,
        'repo_head': _git_head(),
    }
    ev = {
        'property_id': pid, 'tier': tier, 'seed': int(seed), 'level': 'exploration',
        'coverage': cov,
        'assumptions': list(getattr(mod, 'ASSUMPTIONS', [])) + [
            'numpy/scipy primitives (splrep/splev, PchipInterpolator, cKDTree, hilbert, np.pad) are the trusted base',
            'verdict covers only the executions listed here: held on what was observed, not proved',
        ],
        'wall_s': round(wall, 2),
        'violations': len(new),
    }
    with open(os.path.join(EVID, pid + '.json'), 'w') as f:
        json.dump(ev, f, indent=1, sort_keys=False)

    for ln in lines:
        print(ln)
    if verdict == 'inconclusive':
        print('INCONCLUSIVE property=%s reason=%s' % (pid, '; '.join(reasons)[:1500]))
    print('%s %s tier=%s seed=%s verdict=%s evaluations=%d distinct=%d wall=%.1fs'
          % ('RESULT', pid, tier, seed, verdict, cov['evaluations'], cov['distinct_nontrivial'], wall))
    return code


def _git_head():
    try:
        h = subprocess.run(['git', '-C', REPO, 'rev-parse', '--short', 'HEAD'], capture_output=True, text=True, timeout=10).stdout.strip()
        d = subprocess.run(['git', '-C', REPO, 'status', '--porcelain', '--untracked-files=no'], capture_output=True, text=True, timeout=10).stdout.strip()
        return h + ('+dirty' if d else '')
    except Exception:
        return 'unknown'


def run_replay(path):
    bootstrap()
    with open(path) as f:
        rec = json.load(f)
    pid = rec['property']
    mod = load_prop(pid)
    ctx = Ctx(pid, rec.get('tier', 'quick'), rec.get('seed', 0), 0, 1, 600)
    ctx.replaying = True
    case = unjson(rec['case'])
    mod.replay(ctx, case)
    known = known_findings(pid)
    bad = [v for v in ctx.violations if v['key'] not in known]
    for v in ctx.violations:
        tag = 'KNOWN-FINDING:' if v['key'] in known else 'VIOLATION'
        if tag == 'VIOLATION':
            print('VIOLATION property=%s replay=%s' % (pid, path))
        else:
            print('KNOWN-FINDING: property=%s %s' % (pid, known[v['key']]['what']))
        print('  # %s: %s' % (v['key'], v['what']))
    if not ctx.violations:
        print('replay of %s: no violation on the current tree (recorded: %s)' % (path, rec.get('key')))
    return EXIT_VIOLATION if bad else EXIT_HELD
