from common import *
import os, json, functools, tempfile, glob, hashlib, random
TR = tempfile.mkdtemp(prefix='tr')
orig_sift = S.sift; orig_gni = S.get_next_imf
PARENT=os.getpid()
def sift_w(X, *a, **k):
    if os.getpid()!=PARENT or CTX.get('on'):
        time.sleep(random.Random(os.getpid()*1000+int(time.time()*1e6)%1000).uniform(0,0.003))
        np.save(os.path.join(TR,'%d_%d.npy'%(os.getpid(), int(time.time()*1e9))), np.asarray(X))
    return orig_sift(X,*a,**k)
functools.update_wrapper(sift_w, orig_sift)
CTX={}
S.sift = sift_w
def gni_w(X,*a,**k):
    if os.getpid()!=PARENT:
        time.sleep(random.uniform(0,0.003))
        with open(os.path.join(TR,'gni_%d.txt'%os.getpid()),'a') as f: f.write(hashlib.sha1(np.asarray(X).tobytes()).hexdigest()[:8]+'\n')
    return orig_gni(X,*a,**k)
functools.update_wrapper(gni_w, orig_gni)
S.get_next_imf = gni_w
rng=np.random.default_rng(0)
x = gen(rng,'tones',200)+.05*rng.standard_normal(200)
def members():
    out=[]
    for f in sorted(glob.glob(TR+'/*.npy')):
        out.append((int(os.path.basename(f).split('_')[0]), np.load(f))); os.remove(f)
    return out
for npr in [1,2,4]:
  for mode in ['single','flip']:
    np.random.seed(3); CTX['on']=True
    e = S.ensemble_sift(x, nensembles=4, nprocesses=npr, noise_mode=mode, max_imfs=3, ensemble_noise=.1)
    CTX['on']=False
    mem = members()
    # recompute
    dec = [orig_sift(m, max_imfs=3) for _,m in mem]
    if mode=='flip':
        # pair by noise sign
        ns=[m.reshape(-1)-x for _,m in mem]; used=set(); pairs=[]
        for i in range(len(ns)):
            if i in used: continue
            j=[j for j in range(len(ns)) if j not in used and j!=i and np.allclose(ns[j],-ns[i])][0]; used|={i,j}; pairs.append((i,j))
        mdec=[(dec[i]+dec[j])/2 for i,j in pairs]
    else: mdec=dec
    ref=np.mean(mdec,axis=0)
    print(npr,mode,len(mem),'pids',len(set(p for p,_ in mem)),'maxdiff',np.abs(ref-e).max())
# assignment diversity for mask
pats=set()
for rep in range(12):
    for f in glob.glob(TR+'/gni_*.txt'): os.remove(f)
    S.get_next_imf_mask(x,.1,1.,nphases=6,nprocesses=3)
    pat=tuple(sorted(len(open(f).read().split()) for f in glob.glob(TR+'/gni_*.txt')))
    pats.add(pat)
print('distinct jobs-per-worker patterns', pats)
