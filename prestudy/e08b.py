from common import *
rng=np.random.default_rng(0)
res={}
for rep in range(40):
    n=int(rng.choice([30,60,120])); x = gen(rng,str(rng.choice(['tones','noise','walk'])),n)
    for mi in [None,2,4,8]:
      for noise in [0,.1,2.]:
        np.random.seed(rep)
        try:
            e = timed(S.ensemble_sift, x, nensembles=int(rng.integers(1,6)), ensemble_noise=noise, max_imfs=mi, tmo=60)
            k=('ok', mi is None); 
            if mi is not None and e.shape[1]>mi: k=('overcap',)
            if not np.isfinite(e).all(): k=('nonfinite',)
        except TO: k=('TO',)
        except Exception as ex: k=('EXC', type(ex).__name__, str(ex)[:50], mi, noise)
        res[k]=res.get(k,0)+1
for k,v in res.items(): print(k,v)
