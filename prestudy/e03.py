from common import *
rng = np.random.default_rng(2)
x = gen(rng,'tones',400)+.3*rng.standard_normal(400)
full = S.sift(x)
print('full', full.shape)
for k in range(1, full.shape[1]+3):
    c = S.sift(x, max_imfs=k)
    print(k, c.shape, np.array_equal(c, full[:, :min(k, full.shape[1])]))
# manual peel
r = x[:,None].copy(); cols=[]
while True:
    i, f = S.get_next_imf(r, env_step_size=1, sd_thresh=.1)
    cols.append(i); r = x[:,None]-np.concatenate(cols,1).sum(1)[:,None]
    if not f or len(cols)>20: break
man = np.concatenate(cols,1); print('manual', man.shape, np.array_equal(man, full))
# mask sift
fullm, mf = S.mask_sift(x, ret_mask_freq=True, max_imfs=9); print('mask full', fullm.shape, mf)
for k in range(1, 8):
    c = S.mask_sift(x, max_imfs=k, mask_freqs=mf[0])
    print('mask',k, c.shape, np.array_equal(c, fullm[:, :k]))
np.random.seed(0)
for k in [1,2,3,5]:
    e = S.ensemble_sift(x, nensembles=3, max_imfs=k); print('ens', k, e.shape, np.isfinite(e).all())
for k in [None]:
    try:
        e = S.ensemble_sift(x, nensembles=6, max_imfs=None); print('ens None', e.shape)
    except Exception as ex: print('ens None EXC', type(ex).__name__, ex)
for k in [1,2,3,5]:
    try:
        e,nz = S.complete_ensemble_sift(x, nensembles=3, max_imfs=k); print('cens', k, e.shape, nz.shape)
    except Exception as ex: print('cens EXC', k, type(ex).__name__, ex)
IA = np.abs(full[:, :3])+1
for a in [None, {}, {'max_imfs':2}, {'max_imfs':4}]:
    try:
        s = S.sift_second_layer(IA, sift_args=a); print('2nd', a, s.shape)
    except Exception as ex: print('2nd EXC', a, type(ex).__name__, ex)
