from common import *
import os, json, functools, tempfile, glob
TR = tempfile.mkdtemp(prefix='tr')
def rec(stage, d):
    with open(os.path.join(TR, '%d.jsonl'%os.getpid()),'a') as f:
        f.write(json.dumps([stage, os.getpid(), d], default=str)+'\n')
def wrap(name, pick):
    orig = getattr(S, name)
    @functools.wraps(orig)
    def w(*a, **k):
        rec(name, pick(a,k))
        return orig(*a, **k)
    setattr(S, name, w)
wrap('interp_envelope', lambda a,k: {kk:vv for kk,vv in k.items()})
wrap('get_padded_extrema', lambda a,k: {kk:vv for kk,vv in k.items()})
wrap('get_next_imf', lambda a,k: {kk:vv for kk,vv in k.items()})
def read():
    out=[]
    for f in glob.glob(TR+'/*.jsonl'):
        out+= [json.loads(l) for l in open(f)]
        os.remove(f)
    return out
rng=np.random.default_rng(0)
x = gen(rng,'tones',300)+.2*rng.standard_normal(300)
imf_opts={'stop_method':'rilling','env_step_size':.5}
env={'interp_method':'pchip'}
ext={'pad_width':3,'parabolic_extrema':False}
def summarize(rows):
    s={}
    for st,pid,d in rows:
        s.setdefault(st,{}).setdefault(json.dumps(d,sort_keys=True),set()).add(pid)
    for st,v in s.items():
        for d,p in v.items(): print('   ',st, d[:150], 'pids',len(p))
variants = {
 'sift': lambda: S.sift(x, imf_opts=imf_opts, envelope_opts=env, extrema_opts=ext, max_imfs=2),
 'mask_sift': lambda: S.mask_sift(x, imf_opts=imf_opts, envelope_opts=env, extrema_opts=ext, max_imfs=2, nprocesses=2),
 'ensemble_sift': lambda: S.ensemble_sift(x, nensembles=3, nprocesses=2, imf_opts=imf_opts, envelope_opts=env, extrema_opts=ext, max_imfs=2),
 'complete_ensemble_sift': lambda: S.complete_ensemble_sift(x, nensembles=2, nprocesses=2, imf_opts=imf_opts, envelope_opts=env, extrema_opts=ext, max_imfs=1),
 'second_layer': lambda: S.sift_second_layer(np.abs(np.c_[x,x[::-1]])+1, sift_args=dict(imf_opts=imf_opts, envelope_opts=env, extrema_opts=ext, max_imfs=2)),
 'mask_second_layer': lambda: S.mask_sift_second_layer(np.abs(np.c_[x,x[::-1]])+1, np.array([.2,.1,.05]), sift_args=dict(imf_opts=imf_opts, envelope_opts=env, extrema_opts=ext, max_imfs=2)),
}
for name,f in variants.items():
    print(name)
    try:
        timed(f, tmo=120)
    except Exception as e:
        print('   EXC', type(e).__name__, str(e)[:100])
    summarize(read())
