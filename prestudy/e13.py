from common import *
import itertools, io, contextlib
from emd import cycles as C
res={}
rng=np.random.default_rng(0)
def ref_good(ph, edge, mask=None, step=1.5*np.pi):
    n=len(ph); w=[i+1 for i in range(n-1) if abs(ph[i+1]-ph[i])>step]
    lab=np.full(n,-1)
    if not w: return lab
    b=sorted(set([0]+w+[n])); c=0
    for k in range(len(b)-1):
        s=ph[b[k]:b[k+1]]
        ok = np.all(np.diff(s)>0) and 0<=s[0]<=edge and 2*np.pi-edge<=s[-1]<=2*np.pi
        if mask is not None and not mask[b[k]:b[k+1]].all(): ok=False
        if ok: lab[b[k]:b[k+1]]=c; c+=1
    return lab
def synth(n):
    f = np.abs(rng.normal(1/rng.uniform(6,40), .01, n)); 
    if rng.random()<.5: f[rng.integers(0,n,3)] *= -3
    ph = (np.cumsum(2*np.pi*f)+rng.uniform(0,6))%(2*np.pi)
    return ph
tot=0
for rep in range(3000):
    n=int(rng.integers(5,400)); ph=synth(n); edge=float(rng.choice([np.pi/12,.5,np.pi/2,.05]))
    mk = rng.choice(['none','rand','block'])
    mask=None
    if mk=='rand': mask = rng.random(n)>.05
    if mk=='block': mask=np.ones(n,bool); a=rng.integers(0,n); mask[a:a+n//5]=False
    exp = ref_good(ph,edge,mask); tot+=1
    try:
        with contextlib.redirect_stdout(io.StringIO()):
            got = C.get_cycle_vector(ph, return_good=True, mask=mask, phase_edge=edge)[:,0]
    except Exception as e:
        k=('EXC',mk,type(e).__name__,str(e)[:50]); res.setdefault(k,[]).append(rep); continue
    if not np.array_equal(got,exp): res.setdefault(('mismatch',mk),[]).append((rep,n))
    # Cycles is_good
    try:
        with contextlib.redirect_stdout(io.StringIO()):
            cyc = C.Cycles(ph, phase_edge=edge)
        allv = C.get_cycle_vector(ph, return_good=False)[:,0]
        expg = np.array([ int(ref_good(ph,edge)[np.where(allv==k)[0][0]]>-1) for k in range(allv.max()+1)])
        if not np.array_equal(cyc.metrics['is_good'], expg): res.setdefault('cycles_is_good',[]).append((rep,edge,cyc.metrics['is_good'].tolist()[:6],expg.tolist()[:6]))
    except Exception as e:
        k=('EXC_Cycles',type(e).__name__,str(e)[:50]); res.setdefault(k,[]).append(rep)
print(tot)
for k,v in res.items(): print(k,len(v),v[:3])
print('----')
rng=np.random.default_rng(0)
cnt={}
for rep in range(3000):
    n=int(rng.integers(5,400)); ph=synth(n); edge=float(rng.choice([np.pi/12,.5,np.pi/2,.05]))
    mk = rng.choice(['none','rand','block'])
    if mk=='rand': mask = rng.random(n)>.05
    if mk=='block': a=rng.integers(0,n)
    allv = C.get_cycle_vector(ph, return_good=False)[:,0]
    nw = allv.max()+1
    try:
        with contextlib.redirect_stdout(io.StringIO()):
            cyc = C.Cycles(ph, phase_edge=edge)
        ok = 'is_good' in cyc.metrics
        if ok:
            expg = np.array([ int(ref_good(ph,edge)[np.where(allv==k)[0][0]]>-1) for k in range(nw)])
            expd = np.array([ int(ref_good(ph,np.pi/12)[np.where(allv==k)[0][0]]>-1) for k in range(nw)])
            k=('has', edge==np.pi/12, bool(np.array_equal(cyc.metrics['is_good'],expg)), bool(np.array_equal(cyc.metrics['is_good'],expd)))
        else:
            sc = len(cyc._slice_cache)
            k=('missing', nw, sc==nw, bool((np.diff(allv)<0).any()))
    except Exception as e:
        k=('EXC',type(e).__name__)
    cnt[k]=cnt.get(k,0)+1
for k,v in cnt.items(): print(k,v)
