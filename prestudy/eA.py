# C20: snapshot/restore fidelity of logging state
from common import *
import logging, io, contextlib, copy
from emd import logger as L
def snap():
    names=[n for n in logging.root.manager.loggerDict if n=='emd' or n.startswith('emd.')]
    st={}
    for n in names:
        lg=logging.getLogger(n); st[n]=(list(lg.handlers), lg.level, lg.disabled, lg.propagate)
    return st, logging.root.manager.disable
def restore(s):
    st,dis=s
    for n,(h,lv,d,p) in st.items():
        lg=logging.getLogger(n)
        for hh in list(lg.handlers):
            if hh not in h:
                lg.removeHandler(hh)
                try: hh.close()
                except Exception: pass
        lg.handlers[:] = h; lg.setLevel(lv); lg.disabled=d; lg.propagate=p
    logging.disable(dis)
    if hasattr(logging.root.manager,'_clear_cache'): logging.root.manager._clear_cache()
P=snap()
x=np.sin(np.arange(40)/3.)+.1*np.cos(np.arange(40)*1.3)
def obs():
    return (L.get_level(), L.is_active(), len(logging.getLogger('emd').handlers), logging.getLogger('emd.sift').isEnabledFor(logging.INFO))
print('pristine', obs())
with contextlib.redirect_stdout(io.StringIO()):
    L.set_up(level='DEBUG'); L.disable()
print('after setup+disable', obs())
restore(P); print('restored', obs())
with contextlib.redirect_stdout(io.StringIO()):
    try: S.sift(x, verbose='INFO')
    except Exception as e: print('as pristine: ', type(e).__name__)
t0=time.time()
for i in range(200):
    restore(P)
    with contextlib.redirect_stdout(io.StringIO()):
        L.set_up(level='WARNING'); S.sift(x, max_imfs=1, verbose='DEBUG')
print('per history ms', (time.time()-t0)/200*1000)
