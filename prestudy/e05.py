from common import *
import itertools
from scipy import interpolate as interp
res={}; tot=0
def strict_max(x):
    return np.array([i for i in range(1,len(x)-1) if x[i]>x[i-1] and x[i]>x[i+1]], dtype=int)
def check(x, pad, parab, method, mode):
    global tot
    tot+=1
    key=(tuple(x.tolist()) if len(x)<12 else len(x), pad, parab, method, mode)
    try:
        out = S.interp_envelope(x, mode=mode, interp_method=method, extrema_opts={'pad_width':pad,'parabolic_extrema':parab}, ret_extrema=True)
    except Exception as e:
        import re as _re; res.setdefault(('EXC',type(e).__name__,_re.sub(r'\d+','N',str(e))[:50], pad, parab),[]).append(key); return
    y = {'upper':x,'lower':-x,'combined':np.abs(x)}[mode]
    ext = strict_max(y)
    if out is None:
        if len(ext)>=2: res.setdefault('none_but_ext',[]).append(key)
        return
    env,(locs,mags)=out
    if len(ext)<2: res.setdefault('env_but_noext',[]).append(key); return
    if env.shape!=(len(x),): res.setdefault('shape',[]).append(key); return
    if not np.all(np.diff(locs)>0): res.setdefault(('locs_not_increasing',pad,parab),[]).append(key+(locs.tolist(),)); return
    # interior
    inside = (locs>=0)&(locs<=len(x)-1)
    if not parab:
        if not np.array_equal(locs[inside], ext): res.setdefault(('interior_changed',pad),[]).append(key+(locs.tolist(),))
        # passes through extrema
        sgn = -1 if mode=='lower' else 1
        if not np.allclose(env[ext], x[ext] if mode!='combined' else np.abs(x)[ext], atol=1e-9): res.setdefault('not_through',[]).append(key)
    if pad>0 and not (locs[0]<0 and locs[-1]>len(x)-1): res.setdefault(('pad_not_beyond',pad,parab),[]).append(key+(locs.tolist(),))
    # rebuild
    t = np.arange(len(x))
    try:
        if method=='splrep': refenv = interp.splev(t, interp.splrep(locs,mags))
        else: refenv = interp.PchipInterpolator(locs,mags)(t)
    except Exception as e:
        res.setdefault(('REFEXC',str(e)[:40]),[]).append(key); return
    if not np.allclose(env, refenv, rtol=1e-9, atol=1e-9): res.setdefault(('env_mismatch',parab),[]).append(key+(np.abs(env-refenv).max(),))
for L in range(3,9):
    for seq in itertools.product([0.,1.,2.], repeat=L):
        x=np.array(seq)
        for pad in [0,1,2,3]:
            for parab in [False,True]:
                check(x,pad,parab,'splrep','upper')
                check(x,pad,parab,'pchip','lower')
rng=np.random.default_rng(0)
for n in [20,50,200]:
    for rep in range(20):
        x = rng.standard_normal(n)
        for pad in [0,1,2,5]:
            for parab in [False,True]:
                for m in ['splrep','pchip','mono_pchip']:
                    for mode in ['upper','lower','combined']:
                        check(x,pad,parab,m,mode)
print(tot)
for k,v in res.items(): print(k, len(v), v[:3])
