from common import *
from emd import spectra as SP
rng=np.random.default_rng(0)
def brute(IF, IA, edges, mode):
    nb=len(edges)-1; out=np.zeros((nb, IF.shape[0]))
    for t in range(IF.shape[0]):
        for j in range(IF.shape[1]):
            f=IF[t,j]
            for b in range(nb):
                if edges[b]<=f<edges[b+1]:
                    out[b,t]+= IA[t,j]**2 if mode=='energy' else IA[t,j]
    return out
res={}
for rep in range(300):
    T=int(rng.integers(1,12)); M=int(rng.integers(1,4)); nb=int(rng.integers(1,6))
    edges,_ = SP.define_hist_bins(1, 5, nb, scale=str(rng.choice(['linear','log'])))
    pool = np.r_[edges, edges-1e-9, edges+1e-9, [-3,0,.5,7,100], rng.uniform(0,6,5)]
    IF = rng.choice(pool,(T,M)); IA = rng.uniform(.1,2,(T,M))
    for mode in ['energy','amplitude']:
        b = brute(IF,IA,edges,mode)
        h = SP.hilberthuang(IF,IA,edges,mode=mode)
        hs = SP.hilberthuang(IF,IA,edges,mode=mode,return_sparse=True).toarray()
        h1 = SP.hilberthuang_1d(IF,IA,edges,mode=mode)
        b1 = np.zeros((nb,M))
        for j in range(M): b1[:,j] = brute(IF[:,j:j+1],IA[:,j:j+1],edges,mode).sum(1)
        for nm,ok in [('dense',np.allclose(h,b)),('sparse',np.allclose(hs,b)),('1d',np.allclose(h1,b1)),('shape',h.shape==b.shape)]:
            if not ok:
                below=(IF<edges[0]).any()
                res[(nm,bool(below))]=res.get((nm,bool(below)),0)+1
print(res)
