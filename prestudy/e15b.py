from common import *
import io, contextlib
from emd import cycles as C
rng=np.random.default_rng(1)
f = np.abs(rng.normal(1/20, .004, 600)); ph=(np.cumsum(2*np.pi*f))%(2*np.pi)
cy=C.Cycles(ph); print('ncycles',cy.ncycles)
vals=np.round(rng.standard_normal(cy.ncycles),1); cy.add_cycle_metric('v',vals.copy())
for cond in ['v>0','v>=0','v<0','v<=0','v==0','v!=0','v>-0.5','v<1e-1','v>=-1.5e0','v==0.1','v>100','v > 0', 'v=>0','v=<0']:
    try:
        m=cy.get_matching_cycles([cond]); 
        name,op,val = cond.replace(' ','').partition('>')[0],None,None
        print(cond, int(m.sum()), end=' | ')
    except Exception as e: print(cond,'EXC',type(e).__name__,str(e)[:40], end=' | ')
print()
for conds in [['v>0'],['v>0','is_good==1'],['v>100']]:
    try:
        with contextlib.redirect_stdout(io.StringIO()):
            cy.pick_cycle_subset(conds); cy.compute_chain_timings()
        print(conds,'subset',cy.subset_vect.max()+1,'chains',cy.chain_vect.max()+1, sorted(cy.metrics))
        df=cy.get_metric_dataframe(subset=True); print(' df', df.shape, list(df.columns)[:4])
    except Exception as e: print(conds,'EXC',type(e).__name__,str(e)[:60])
r = cy.add_cycle_metric('bad', np.arange(3)); print('bad add ->', type(r), 'bad' in cy.metrics)
a=np.array([1.,np.nan]+[0.]*(cy.ncycles-2)); cy.add_cycle_metric('nanint',a,dtype=int); print('input mutated', a[:3])
