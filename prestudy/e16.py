from common import *
import itertools
from emd import cycles as C, _cycles_support as CS
res={}
tot=0
for L in range(1,9):
  for sel in itertools.product([0,1],repeat=L):
    if not any(sel): continue
    valids=np.array(sel,bool)
    sv=C.get_subset_vector(valids); cv=C.get_chain_vector(sv)
    # expected
    esv=np.full(L,-1); esv[valids]=np.arange(valids.sum())
    runs=[]; 
    for i in range(L):
        if valids[i]:
            if i>0 and valids[i-1]: runs[-1].append(i)
            else: runs.append([i])
    ecv=np.concatenate([[k]*len(r) for k,r in enumerate(runs)])
    if not (np.array_equal(sv,esv) and np.array_equal(cv,ecv)): res.setdefault('vectors',[]).append(sel)
    # cycle_vect with gaps: lengths 2 each, gap before cycle 1 and trailing gap
    for gaps in [False,True]:
        lab=[]
        for k in range(L):
            if gaps and k%2==1: lab+=[-1]
            lab+=[k,k]
        if gaps: lab+=[-1]
        lab=np.array(lab); tot+=1
        for s in range(len(lab)):
            c = CS.map_sample_to_cycle(lab,s)
            try:
                ss = CS.map_sample_to_subset(sv,lab,s)
                exp = None if (lab[s]<0 or sv[lab[s]]<0) else sv[lab[s]]
                if not ((ss is None and exp is None) or (ss is not None and exp is not None and ss==exp)): res.setdefault(('s2subset', int(lab[s])<0),[]).append((sel,gaps,s,ss,exp))
                ch = CS.map_sample_to_chain(cv,sv,lab,s)
                expc = None if exp is None else cv[exp]
                if not ((ch is None and expc is None) or (ch is not None and expc is not None and ch==expc)): res.setdefault(('s2chain', int(lab[s])<0),[]).append((sel,gaps,s,ch,expc))
            except Exception as e:
                res.setdefault(('EXC_s',type(e).__name__),[]).append((sel,gaps,s))
        for ci in range(len(runs)):
            for nm,f in [('ch2sub',lambda: CS.map_chain_to_subset(cv,ci)),('ch2cyc',lambda: CS.map_chain_to_cycle(cv,sv,ci)),('ch2samp',lambda: CS.map_chain_to_samples(cv,sv,lab,ci))]:
                try:
                    o=f()
                    if nm=='ch2cyc' and not np.array_equal(np.atleast_1d(o), runs[ci]): res.setdefault('ch2cyc_wrong',[]).append((sel,ci,o))
                    if nm=='ch2samp' and not np.array_equal(o, np.where(np.isin(lab,runs[ci]))[0]): res.setdefault('ch2samp_wrong',[]).append((sel,ci))
                except Exception as e:
                    res.setdefault(('EXC',nm,type(e).__name__,str(e)[:40], len(runs[ci])==1),[]).append((sel,ci))
        # projections
        vals=np.arange(len(runs))+10.
        try:
            pc = CS.project_chain_to_cycles(vals,cv,sv); e=np.full(L,np.nan)
            for k,r in enumerate(runs): e[r]=vals[k]
            if not np.allclose(pc,e,equal_nan=True): res.setdefault('proj_ch2cyc',[]).append(sel)
            ps = CS.project_chain_to_samples(vals,cv,sv,lab); es=np.full(len(lab),np.nan)
            for k,r in enumerate(runs): es[np.isin(lab,r)]=vals[k]
            if not np.allclose(ps,es,equal_nan=True): res.setdefault(('proj_ch2samp',gaps),[]).append((sel,ps.tolist(),es.tolist()))
            sub=np.arange(valids.sum())+20.
            p2=CS.project_subset_to_samples(sub,sv,lab); e2=np.full(len(lab),np.nan)
            for i in range(L):
                if valids[i]: e2[lab==i]=sub[sv[i]]
            if not np.allclose(p2,e2,equal_nan=True): res.setdefault(('proj_sub2samp',gaps),[]).append((sel,p2.tolist(),e2.tolist()))
        except Exception as e:
            res.setdefault(('EXC_proj',type(e).__name__,str(e)[:40]),[]).append(sel)
print(tot)
for k,v in res.items(): print(k,len(v),v[:2])
