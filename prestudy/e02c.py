from common import *
rng=np.random.default_rng(4)
res={}; tot=0; firstbad=[]
for rep in range(60):
    kind=str(rng.choice(['noise','walk','tones','amfm'])); n=int(rng.choice([40,100,300]))
    x=gen(rng,kind,n)
    stop=str(rng.choice(['sd','rilling','fixed'])); interp=str(rng.choice(['splrep','pchip','mono_pchip']))
    io={'stop_method':stop}; 
    if stop=='fixed': io['max_iters']=4
    kw=dict(imf_opts=io, envelope_opts={'interp_method':interp}, extrema_opts={'pad_width':int(rng.choice([1,2,3]))})
    try:
        a=timed(S.sift,x,tmo=30,**kw)
        for c in [2.**int(rng.integers(-8,9)), -1., -2.**int(rng.integers(-8,9))]:
            b=timed(S.sift,c*x,tmo=30,sift_thresh=1e-8*abs(c),**kw); tot+=1
            if not (a.shape==b.shape and np.array_equal(b,c*a)): res.setdefault(('sift_inexact',c<0),[]).append((rep,kind,n,stop,interp,a.shape,b.shape))
        r=timed(S.sift,x[::-1].copy(),tmo=30,**kw); tot+=1
        k=0
        while k<min(a.shape[1],r.shape[1]) and np.allclose(r[::-1,k],a[:,k],atol=1e-8*np.abs(x).max()): k+=1
        if k<max(a.shape[1],r.shape[1]):
            amp = np.abs(a[:,k]).max()/np.abs(x).max() if k<a.shape[1] else 0
            firstbad.append((rep,stop,interp,k,a.shape[1],r.shape[1],float('%.2g'%amp)))
    except TO: res.setdefault('TO',[]).append(rep)
    except Exception as e: res.setdefault(('EXC',type(e).__name__,str(e)[:50]),[]).append(rep)
print(tot)
for k,v in res.items(): print(k,len(v),v[:4])
print(len(firstbad)); 
for f in firstbad: print(f)
