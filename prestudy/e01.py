from common import *
rng = np.random.default_rng(0)
tot=0; res={}
T0=time.time()
for kind in ['noise','walk','tones','int','const','ramp','amfm']:
  for n in [3,4,5,8,16,40,100,300]:
    for stop in ['sd','rilling','fixed']:
      for interp in ['splrep','pchip','mono_pchip']:
        for pad in [1,2,3]:
          for step in [1,.5]:
            x = gen(rng,kind,n)
            imf_opts = {'stop_method':stop, 'env_step_size':step}
            if stop=='fixed': imf_opts['max_iters']=5
            key=(kind,n,stop,interp,pad,step)
            t0=time.time()
            try:
                imf = timed(S.sift, x, imf_opts=imf_opts, envelope_opts={'interp_method':interp}, extrema_opts={'pad_width':pad}, tmo=5)
            except TO:
                res.setdefault('TIMEOUT',[]).append(key); continue
            except Exception as e:
                res.setdefault(('EXC',type(e).__name__,str(e)[:60]),[]).append(key)
                continue
            dt=time.time()-t0
            tot+=1
            err = np.abs(imf.sum(axis=1)-x).max()
            scale = np.abs(x).max()+1e-300
            last = imf[:,-1]
            npk,ntr = next_(last)
            finite = np.isfinite(imf).all()
            cut = np.abs(last).sum() < 1e-8
            ok_sum = err <= 1e-9*max(scale,1)
            ok_res = (npk<2 or ntr<2)
            if not finite: res.setdefault('nonfinite',[]).append(key)
            elif not ok_sum and not cut: res.setdefault('sum',[]).append(key+(err,imf.shape))
            elif not ok_res and not cut: res.setdefault('resid',[]).append(key+(npk,ntr,imf.shape))
            if dt>2: res.setdefault('slow',[]).append(key+(dt,))
print(tot, time.time()-T0)
for k,v in res.items():
    print(k, len(v), v[:8])
