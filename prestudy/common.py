import numpy as np, signal, warnings, time, sys

warnings.simplefilter('ignore')
import emd
from emd import sift as S
class TO(Exception): pass
def _h(*a): raise TO()
signal.signal(signal.SIGALRM, _h)
def timed(f, *a, tmo=10, **k):
    signal.alarm(tmo)
    try:
        return f(*a, **k)
    finally:
        signal.alarm(0)
def gen(rng, kind, n):
    t = np.arange(n)
    if kind=='noise': return rng.standard_normal(n)
    if kind=='walk': return np.cumsum(rng.standard_normal(n))
    if kind=='tones': return np.sin(2*np.pi*t/ rng.uniform(5,20))+.5*np.sin(2*np.pi*t/rng.uniform(30,80))+ t/n*rng.uniform(-2,2)
    if kind=='int': return rng.integers(-3,4,n).astype(float)
    if kind=='const': return np.full(n, rng.uniform(-2,2))
    if kind=='ramp': return np.linspace(rng.uniform(-1,0), rng.uniform(0.1,1), n)
    if kind=='amfm': return (1+.5*np.sin(2*np.pi*t/n*3))*np.sin(2*np.pi*t/12 + 2*np.sin(2*np.pi*t/n*2))
def next_(x):
    pk = S._find_extrema(x)[0]; tr=S._find_extrema(-x)[0]
    return len(pk), len(tr)
