from common import *
import io, contextlib
from emd import cycles as C
res={}
rng=np.random.default_rng(0)
def synth(n):
    f = np.abs(rng.normal(1/rng.uniform(6,40), .01, n)); 
    if rng.random()<.5: f[rng.integers(0,n,3)] *= -3
    return (np.cumsum(2*np.pi*f)+rng.uniform(0,6))%(2*np.pi)
for rep in range(400):
    n=int(rng.integers(20,400)); ph=synth(n); v=rng.standard_normal(n)
    cv = C.get_cycle_vector(ph,return_good=False)[:,0]
    if cv.max()<0: continue
    out={}
    for cache in [True,False]:
        try:
            with contextlib.redirect_stdout(io.StringIO()):
                cy=C.Cycles(ph,use_cache=cache)
                cy.compute_cycle_metric('m',v,np.mean)
                cy.compute_cycle_metric('mx',v,np.max)
                cy.compute_cycle_timings()
                try:
                    cy.compute_cycle_metric('aug',v,np.mean,mode='augmented')
                except Exception as e:
                    cy.metrics['aug']=('EXC',type(e).__name__,str(e)[:40])
            out[cache]=cy
        except Exception as e:
            res.setdefault(('EXC',cache,type(e).__name__,str(e)[:40]),[]).append(rep); out[cache]=None
    if out[True] is None or out[False] is None: continue
    for k in ['is_good','m','mx','start_sample','stop_sample','duration','aug']:
        a=out[True].metrics.get(k); b=out[False].metrics.get(k)
        if isinstance(a,tuple) or isinstance(b,tuple):
            if a!=b: res.setdefault(('augexc',str(a)[:50],str(b)[:50]),[]).append(rep)
            continue
        if a is None or b is None or not np.allclose(a,b,equal_nan=True):
            d = None
            if a is not None and b is not None and len(a)==len(b): d=np.where(~np.isclose(a,b,equal_nan=True))[0].tolist()[:4]
            res.setdefault(('cachediff',k, str(d) if k!='aug' else ('first' if d and d[0]==0 else 'other')),[]).append(rep)
    # reference
    ref = np.array([v[cv==k].mean() for k in range(cv.max()+1)])
    if not np.allclose(out[False].metrics['m'],ref): res.setdefault('m_wrong_nocache',[]).append(rep)
    if not np.allclose(out[True].metrics['m'],ref): res.setdefault('m_wrong_cache',[]).append(rep)
for k,v in res.items(): print(k,len(v),v[:4])
