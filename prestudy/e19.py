from common import *
import io, contextlib, copy
from emd import spectra as SP, cycles as C, utils as U
rng=np.random.default_rng(0)
n=200
x = gen(rng,'tones',n)+.1*rng.standard_normal(n)
def call(f,*a,**k):
    try:
        with contextlib.redirect_stdout(io.StringIO()):
            np.random.seed(0)
            o=timed(f,*a,tmo=60,**k)
        o0 = o[0] if isinstance(o,tuple) else o
        return ('ok', None if o0 is None else np.asarray(o0).shape, o0)
    except TO: return ('TO',None,None)
    except Exception as e: return ('EXC:'+type(e).__name__, str(e)[:40], None)
single = {
 'sift': lambda X: S.sift(X),
 'get_next_imf': lambda X: S.get_next_imf(X),
 'get_next_imf_mask': lambda X: S.get_next_imf_mask(X,.1,1.),
 'mask_sift': lambda X: S.mask_sift(X,max_imfs=3),
 'ensemble_sift': lambda X: S.ensemble_sift(X,nensembles=2,max_imfs=2),
 'complete_ensemble_sift': lambda X: S.complete_ensemble_sift(X,nensembles=2,max_imfs=1),
 'interp_envelope': lambda X: S.interp_envelope(X),
 'get_padded_extrema': lambda X: S.get_padded_extrema(X),
}
for nm,f in single.items():
    base = call(f,x)
    row=[nm, base[0], base[1]]
    for lay,X in [('n1',x[:,None]),('n11',x[:,None,None]),('n2',np.c_[x,x[::-1]]),('1n',x[None,:]),('n23',np.tile(x[:,None,None],(1,2,3)))]:
        r=call(f,X)
        same = r[0]=='ok' and base[0]=='ok' and r[1]==base[1] and np.array_equal(r[2],base[2])
        row.append((lay, r[0], 'same' if same else r[1]))
    # read-only and mutation
    xr=x.copy(); xr.setflags(write=False); r=call(f,xr); row.append(('readonly',r[0]))
    print(row)
