from common import *
rng = np.random.default_rng(1)
res={}; tot=0
def run(x, **kw):
    return timed(S.get_next_imf, x, tmo=20, **kw)
for kind in ['noise','walk','tones','amfm','int']:
  for n in [8,16,40,100,300]:
    for stop in ['sd','rilling','fixed']:
      for interp in ['splrep','pchip','mono_pchip']:
        for pad in [1,2,3]:
            x = gen(rng,kind,n)
            imf_opts = {'stop_method':stop, 'env_step_size':rng.choice([1,.5])}
            if stop=='fixed': imf_opts['max_iters']=4
            kw=dict(envelope_opts={'interp_method':interp}, extrema_opts={'pad_width':pad}, **imf_opts)
            key=(kind,n,stop,interp,pad)
            try:
                a,fa = run(x, **kw)
                for c in [2.0,-1.0,-0.25, 3.0, -7.3]:
                    b,fb = run(c*x, **kw)
                    tot+=1
                    exact = np.array_equal(b, c*a) and fa==fb
                    close = np.allclose(b, c*a, rtol=1e-9, atol=1e-12*abs(c)) and fa==fb
                    if c in (2.0,-1.0,-0.25) and not exact:
                        res.setdefault(('notexact',c,close),[]).append(key+(np.abs(b-c*a).max(),))
                    elif not close:
                        res.setdefault(('notclose',c),[]).append(key+(np.abs(b-c*a).max(),))
                r,fr = run(x[::-1].copy(), **kw)
                tot+=1
                d = np.abs(r[::-1]-a).max()
                if not (d <= 1e-8*max(1,np.abs(x).max()) and fr==fa):
                    res.setdefault('reverse',[]).append(key+(d,fr,fa))
            except TO:
                res.setdefault('TIMEOUT',[]).append(key)
            except Exception as e:
                res.setdefault(('EXC',type(e).__name__,str(e)[:60]),[]).append(key)
print(tot)
for k,v in res.items(): print(k, len(v), v[:6])
