from common import *
import io, contextlib
from emd import cycles as C
rng=np.random.default_rng(5)
res={}
def synth(n):
    f = np.abs(rng.normal(1/rng.uniform(8,30), .006, n)); 
    return (np.cumsum(2*np.pi*f)+rng.uniform(0,6))%(2*np.pi)
ops={'>':np.greater,'>=':np.greater_equal,'<':np.less,'<=':np.less_equal,'==':np.equal,'!=':np.not_equal}
for rep in range(300):
    n=int(rng.integers(60,500)); ph=synth(n)
    lab=np.full(n,-1); w=[i+1 for i in range(n-1) if abs(ph[i+1]-ph[i])>1.5*np.pi]
    if not w: continue
    b=sorted(set([0]+w+[n])); 
    for k in range(len(b)-1): lab[b[k]:b[k+1]]=k
    K=lab.max()+1
    v=rng.standard_normal(n)
    for cache in [True,False]:
        try:
            with contextlib.redirect_stdout(io.StringIO()):
                cy=C.Cycles(ph,use_cache=cache)
                cy.compute_cycle_metric('mx',v,np.max); cy.compute_cycle_timings()
                q=np.round(rng.standard_normal(K),1); cy.add_cycle_metric('q',q.copy())
                conds=[]
                m=np.ones(K,bool)
                for _ in range(int(rng.integers(1,3))):
                    name=str(rng.choice(['mx','q','duration'])); op=str(rng.choice(list(ops))); thr=float(np.round(rng.choice(cy.metrics[name]),1)) if name!='mx' else float(rng.choice(cy.metrics[name]))
                    conds.append('%s%s%r'%(name,op,thr)); m&=ops[op](cy.metrics[name],thr)
                if not m.any(): continue
                cy.pick_cycle_subset(conds); cy.compute_chain_timings()
            # model
            sv=np.full(K,-1); sv[m]=np.arange(m.sum())
            runs=[]
            for i in range(K):
                if m[i]:
                    if i>0 and m[i-1]: runs[-1].append(i)
                    else: runs.append([i])
            ecv=np.concatenate([[k]*len(r) for k,r in enumerate(runs)])
            exp={'chain_ind':np.full(K,-1),'chain_start':np.full(K,-1),'chain_end':np.full(K,-1),'chain_len_samples':np.full(K,-1),'chain_len_cycles':np.full(K,-1),'chain_position':np.full(K,-1)}
            for ci,r in enumerate(runs):
                samp=np.where(np.isin(lab,r))[0]
                for pos,c in enumerate(r):
                    exp['chain_ind'][c]=ci; exp['chain_start'][c]=samp[0]; exp['chain_end'][c]=samp[-1]; exp['chain_len_samples'][c]=len(samp); exp['chain_len_cycles'][c]=len(r); exp['chain_position'][c]=pos
            exp['start_sample']=np.array([np.where(lab==k)[0][0] for k in range(K)]); exp['stop_sample']=np.array([np.where(lab==k)[0][-1] for k in range(K)]); exp['duration']=np.array([(lab==k).sum() for k in range(K)])
            exp['mx']=np.array([v[lab==k].max() for k in range(K)])
            if not np.array_equal(cy.subset_vect,sv): res.setdefault(('subset',cache),[]).append(rep)
            if not np.array_equal(cy.chain_vect,ecv): res.setdefault(('chain',cache),[]).append(rep)
            for k2,e in exp.items():
                if k2 not in cy.metrics or len(cy.metrics[k2])!=K or not np.allclose(cy.metrics[k2],e): res.setdefault(('metric',k2,cache),[]).append((rep,conds))
            df=cy.get_metric_dataframe(subset=True)
            if len(df)!=m.sum() or not np.allclose(df['mx'].values, exp['mx'][m]): res.setdefault(('df_subset',cache),[]).append(rep)
            df2=cy.get_metric_dataframe(conditions=conds[:1])
            df3=cy.get_metric_dataframe()
            if len(df3)!=K: res.setdefault(('df_all',cache),[]).append(rep)
        except Exception as e:
            res.setdefault(('EXC',cache,type(e).__name__,str(e)[:60]),[]).append((rep,conds))
for k,v in res.items(): print(k,len(v),v[:3])
print('done')
