from common import *
import io, contextlib
from emd import cycles as C
res={}
rng=np.random.default_rng(0)
# get_cycle_stat
for rep in range(500):
    K=int(rng.integers(1,8)); segs=[]
    lab=[]
    for k in range(K):
        lab += [-1]*int(rng.integers(0,3)) if rng.random()<.4 else []
        lab += [k]*int(rng.integers(1,9))
    lab += [-1]*int(rng.integers(0,3))
    lab=np.array(lab); v=rng.standard_normal(len(lab))
    for fn in [np.mean,np.max,np.sum,len,lambda s: s[0]-s[-1]]:
        exp = np.array([fn(v[lab==k]) for k in range(K)])
        try:
            got = C.get_cycle_stat(lab, v, func=fn)
            if not np.allclose(got,exp): res.setdefault('stat',[]).append(rep)
            gs = C.get_cycle_stat(lab, v, func=fn, out='samples')
            es = np.full(len(lab),np.nan); 
            for k in range(K): es[lab==k]=exp[k]
            if not np.allclose(gs,es,equal_nan=True): res.setdefault('proj',[]).append(rep)
        except Exception as e:
            res.setdefault(('EXC',type(e).__name__,str(e)[:50]),[]).append(rep)
# phase_align: linear in phase -> exact
for rep in range(300):
    lens = rng.integers(8,200,size=int(rng.integers(1,6)))
    ph=[]
    for L in lens:
        ph.append(np.linspace(rng.uniform(0,.2), 2*np.pi-rng.uniform(0,.2), L))
    ph=np.concatenate(ph)
    npts=int(rng.integers(2,65))
    for fn,exact in [(lambda p: 3*p+1,True),(np.sin,False)]:
        x=fn(ph)
        try:
            with contextlib.redirect_stdout(io.StringIO()):
                pa,bins = C.phase_align(ph,x,npoints=npts)
            exp = fn(bins)[:,None]*np.ones((1,len(lens)))
            if pa.shape!=exp.shape: res.setdefault(('pa_shape',pa.shape[1]-exp.shape[1]),[]).append(rep); continue
            err=np.abs(pa-exp).max()
            if exact and err>1e-9: res.setdefault('pa_linear',[]).append((rep,err))
            if not exact and err>2*(2*np.pi/8)**2: res.setdefault('pa_sin',[]).append((rep,err))
        except Exception as e:
            res.setdefault(('EXC_pa',type(e).__name__,str(e)[:50]),[]).append(rep)
# bin_by_phase
for rep in range(300):
    n=int(rng.integers(5,300)); ph=rng.uniform(0,2*np.pi,n); x=rng.standard_normal((n,int(rng.integers(1,3))))
    nb=int(rng.integers(2,65))
    try:
        avg,var,cent = C.bin_by_phase(ph,x,nbins=nb)
        edges=np.linspace(0,2*np.pi,nb+1)
        for b in range(nb):
            m=(ph>=edges[b])&(ph<edges[b+1])
            if m.any():
                if not np.allclose(avg[b], x[m].mean(0)): res.setdefault(('bin_wrong', b==nb-1),[]).append(rep); break
    except Exception as e:
        res.setdefault(('EXC_bin',type(e).__name__,str(e)[:50]),[]).append(rep)
for k,v in res.items(): print(k,len(v),v[:3])
