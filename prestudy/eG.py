from common import *
from emd.support import EMDSiftCovergeError
rng=np.random.default_rng(0)
res={}
for rep in range(300):
    kind=str(rng.choice(['noise','walk','tones','int'])); n=int(rng.choice([10,40,120])); x=gen(rng,kind,n)*10.**float(rng.choice([-300,-160,-20,0,20,150,160,300]))
    stop=str(rng.choice(['sd','rilling','fixed'])); interp=str(rng.choice(['splrep','pchip']))
    io={'stop_method':stop,'max_iters':int(rng.choice([5,50]))}
    try:
        a=timed(S.sift,x,tmo=20,imf_opts=io,envelope_opts={'interp_method':interp},max_imfs=4)
        k=('finite' if np.isfinite(a).all() else 'NONFINITE', float(np.log10(np.abs(x).max()+1e-320)//50*50))
    except EMDSiftCovergeError: k=('converr',)
    except TO: k=('TO',)
    except Exception as e: k=('EXC',type(e).__name__,str(e)[:40])
    res[k]=res.get(k,0)+1
for k,v in sorted(res.items(),key=str): print(k,v)
