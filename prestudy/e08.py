from common import *
import os, json, functools, tempfile, glob, hashlib
TR = tempfile.mkdtemp(prefix='tr')
orig_swn = S._sift_with_noise
orig_sift = S.sift
ctx = {}
@functools.wraps(orig_sift)
def sift_w(X, *a, **k):
    if 'job' in ctx:
        with open(os.path.join(TR,'%d.jsonl'%os.getpid()),'a') as f:
            nz = np.asarray(X).reshape(-1) - ctx['X'].reshape(-1)
            f.write(json.dumps([ctx['job'], os.getpid(), hashlib.sha1(np.round(nz,10).tobytes()).hexdigest()[:10], float(nz.std())])+'\n')
    return orig_sift(X,*a,**k)
@functools.wraps(orig_swn)
def swn_w(X, *a, **k):
    ctx['job'] = a[5] if len(a)>5 else k.get('job_ind'); ctx['X']=np.asarray(X).copy()
    try: return orig_swn(X,*a,**k)
    finally: ctx.pop('job')
S.sift = sift_w; S._sift_with_noise = swn_w
def read():
    out=[]
    for f in glob.glob(TR+'/*.jsonl'):
        out+= [json.loads(l) for l in open(f)]; os.remove(f)
    return sorted(out)
rng=np.random.default_rng(0)
x = gen(rng,'tones',200)
for npr in [1,2,4]:
    for mode in ['single','flip']:
        np.random.seed(1)
        e = S.ensemble_sift(x, nensembles=4, nprocesses=npr, noise_mode=mode, max_imfs=2)
        rows = read()
        digs = [r[2] for r in rows]
        print('ens', npr, mode, len(rows), 'distinct', len(set(digs)), 'pids', len(set(r[1] for r in rows)), [ (r[0],r[2]) for r in rows][:8])
for npr in [1,3]:
    np.random.seed(1)
    e,_ = S.complete_ensemble_sift(x, nensembles=3, nprocesses=npr, max_imfs=1)
    rows = read(); print('cens', npr, len(rows), 'distinct', len(set(r[2] for r in rows)), 'pids', len(set(r[1] for r in rows)))
# zero noise
e0 = S.ensemble_sift(x, nensembles=3, ensemble_noise=0, max_imfs=3); c = orig_sift(x, max_imfs=3)
print('zero noise', np.abs(e0-c).max())
