from common import *
import logging
rng = np.random.default_rng(5)
calls = {'n':0}
orig = S.interp_envelope
def cnt(*a, **k):
    calls['n']+=1
    return orig(*a, **k)
S.interp_envelope = cnt
for trial in range(6):
    x = rng.standard_normal(300)
    for interp in ['pchip','splrep']:
        calls['n']=0
        t0=time.time()
        try:
            imf = timed(S.sift, x, imf_opts={'stop_method':'rilling'}, envelope_opts={'interp_method':interp}, tmo=120)
            print(trial, interp, 'ok', imf.shape, calls['n'], round(time.time()-t0,2), np.abs(imf.sum(1)-x).max())
        except TO:
            print(trial, interp,'TIMEOUT', calls['n'])
        except Exception as e:
            print(trial, interp,'EXC', type(e).__name__, getattr(e,'message',e), calls['n'], round(time.time()-t0,2))
