from common import *
import copy
rng=np.random.default_rng(0)
res={}
def vals():
    c=rng.integers(0,8)
    return [3, .25, None, 'abc', [1,2], (1,2.5), np.array([1.,2.]), True][c]
def norm(o):
    if isinstance(o,dict): return {k:norm(v) for k,v in o.items()}
    if isinstance(o,np.ndarray): return ('arr',o.tolist())
    if isinstance(o,tuple): return ('tup',[norm(v) for v in o])
    if isinstance(o,list): return [norm(v) for v in o]
    return o
for name in ['sift','mask_sift','ensemble_sift','complete_ensemble_sift']:
  for rep in range(200):
    cfg=S.get_config(name); model=copy.deepcopy(cfg.store)
    for step in range(10):
        # pick a path
        depth=int(rng.integers(1,5))
        path=[]; d=model
        for lv in range(depth):
            keys=list(d.keys()) if isinstance(d,dict) else []
            if keys and rng.random()<.8: k=str(rng.choice(keys))
            else: k='new%d'%rng.integers(0,3)
            path.append(k)
            d = d.get(k) if isinstance(d,dict) and isinstance(d.get(k),dict) else {}
        key='/'.join(path); op=str(rng.choice(['set','get','del']))
        def mget(m,p):
            for k in p: m=m[k]
            return m
        try:
            if len(path)>3: raise ValueError('deep')
            elif op=='set':
                v=vals(); mm=mget(model,path[:-1]); 
                if not isinstance(mm,dict): raise TypeError
                mm[path[-1]]=v; exp=('ok',None)
            elif op=='get': exp=('ok',mget(model,path))
            else:
                mm=mget(model,path[:-1]); del mm[path[-1]]; exp=('ok',None)
        except Exception as e: exp=("raise",type(e).__name__)
        try:
            if op=='set': cfg[key]=v; got=('ok',None)
            elif op=='get': got=('ok',cfg[key])
            else: del cfg[key]; got=('ok',None)
        except Exception as e: got=('raise',type(e).__name__)
        if exp[0]!=got[0] or (exp[0]=='ok' and norm(exp[1])!=norm(got[1])): res.setdefault(('step',op,exp[0],got[0],exp[1] if exp[0]=='raise' else '',got[1] if got[0]=='raise' else ''),[]).append((name,rep,key))
        if norm(cfg.store)!=norm(model): res.setdefault(('store_diverged',op),[]).append((name,rep,key)); break
    # yaml roundtrip both routes
    try:
        txt=cfg.to_yaml_text(); c2=S.SiftConfig.from_yaml_stream(txt)
        def y(o):
            if isinstance(o,dict): return {k:y(v) for k,v in o.items()}
            if isinstance(o,(np.ndarray,)): return y(o.tolist())
            if isinstance(o,(tuple,list)): return [y(v) for v in o]
            return o
        if c2.sift_type!=name or y(c2.store)!=y(model): res.setdefault('yaml_text',[]).append((name,rep))
    except Exception as e: res.setdefault(('yaml_EXC',type(e).__name__,str(e)[:50]),[]).append((name,rep))
for k,v in res.items(): print(k,len(v),v[:3])
print('done')
