from common import *
rng=np.random.default_rng(0)
orig=S.get_next_imf
log=[]
def w(X,*a,**k):
    o,f=orig(X,*a,**k); X2=np.asarray(X).reshape(-1,1)
    log.append('A' if (not f) else ('B' if False else 'C'))
    # B: returned with continue True but reached via no-extrema after k>1 -> detect by calling ref? approximate: count envelope calls parity
    return o,f
cnt={'B':0,'tot':0}
calls={'n':0,'none':0}
oe=S.interp_envelope
def we(*a,**k):
    r=oe(*a,**k); calls['n']+=1
    if r is None: calls['none']+=1
    return r
S.interp_envelope=we
def wg(X,*a,**k):
    calls['n']=0; calls['none']=0
    o,f=orig(X,*a,**k)
    path = 'A' if (calls['none']>0 and calls['n']<=2) else ('B' if calls['none']>0 else 'C')
    log.append(path); return o,f
S.get_next_imf=wg
for fam in ['short','generic']:
    nb=0; tot=0
    for rep in range(1500):
        if fam=='short':
            n=int(rng.integers(5,15)); x=rng.standard_normal(n)
        else:
            n=int(rng.choice([16,40,100])); x=gen(rng,str(rng.choice(['noise','walk','tones','amfm','int'])),n)
        stop=str(rng.choice(['sd','rilling','fixed'])); io={'stop_method':stop,'env_step_size':float(rng.choice([1,.5]))}
        if stop=='fixed': io['max_iters']=int(rng.integers(1,8))
        log.clear()
        try: timed(S.sift,x,tmo=10,imf_opts=io,envelope_opts={'interp_method':str(rng.choice(['splrep','pchip','mono_pchip']))})
        except Exception: continue
        tot+=1; nb+= ('B' in log)
    print(fam,'sifts',tot,'with a path-B layer',nb)
