from common import *
rng=np.random.default_rng(0)
x = gen(rng,'tones',300)+.2*rng.standard_normal(300)
def ref_mask(X, z, amp, nphases, **kw):
    X = X.reshape(-1,1)
    t = np.arange(X.shape[0])
    cols=[]; flags=[]
    for p in np.linspace(0,2*np.pi,nphases+1)[:nphases]:
        m = amp*np.cos(2*np.pi*z*t + p)[:,None]
        i,f = S.get_next_imf(X+m, **kw)
        cols.append(i-m); flags.append(f)
    return np.mean(np.concatenate(cols,1),axis=1)[:,None], any(flags)
for nph in [1,2,3,4,5,8]:
    for z,amp in [(.1,1.),(.03,.5),(.2,0.)]:
        r,f = ref_mask(x,z,amp,nph)
        outs=[]
        for npr in [1,2,3,8]:
            o,fo = S.get_next_imf_mask(x, z, amp, nphases=nph, nprocesses=npr)
            outs.append(o)
            if not (np.allclose(o,r,atol=1e-12) and fo==f): print('MISMATCH',nph,z,amp,npr, np.abs(o-r).max())
        if not all(np.array_equal(outs[0],o) for o in outs): print('SCHED',nph,z,amp)
        if amp==0:
            u,_=S.get_next_imf(x); print('zero-amp', nph, np.abs(outs[0]-u).max())
# mask_sift ladder
for mf in ['zc','if',.1,[.2,.1,.03],np.array([.2,.1,.03]), 0.2, 1]:
    for mode in ['abs','ratio_sig','ratio_imf']:
        for amp in [1, .5, np.array([1,.5,.25,.1,.1,.1,.1,.1,.1]), [1,.5,.25,1,1,1,1,1,1]]:
            try:
                imf, fr = S.mask_sift(x, mask_amp=amp, mask_amp_mode=mode, mask_freqs=mf, ret_mask_freq=True, max_imfs=4, mask_step_factor=3)
                print(mf if not isinstance(mf,np.ndarray) else 'arr', mode, type(amp).__name__, imf.shape, np.round(np.asarray(fr),4)[:5])
            except Exception as e:
                print('EXC', mf if not isinstance(mf,np.ndarray) else 'arr', mode, type(amp).__name__, type(e).__name__, str(e)[:80])
        
