from common import *
from emd.support import EMDSiftCovergeError
rng = np.random.default_rng(3)
def ref(X, env_step_size=1, max_iters=1000, stop_method='sd', sd_thresh=.1, rilling_thresh=(0.05,.5,.05), envelope_opts=None, extrema_opts=None):
    envelope_opts = envelope_opts or {}
    p = X.reshape(-1,1).copy(); k=0
    trace=[]
    while True:
        if stop_method!='fixed' and k>max_iters: return ('raise', k, None, trace)
        k+=1
        u = S.interp_envelope(p, mode='upper', **envelope_opts, extrema_opts=extrema_opts)
        l = S.interp_envelope(p, mode='lower', **envelope_opts, extrema_opts=extrema_opts)
        if u is None or l is None:
            return ('noext', k, p, trace)
        avg = ((u+l)/2)[:,None]
        x1 = p-avg
        if stop_method=='sd':
            m = np.sum((p-x1)**2)/np.sum(p**2); stop = m<sd_thresh; margin=abs(m-sd_thresh)/sd_thresh
        elif stop_method=='rilling':
            e = np.abs((u+l)/2)/(np.abs(u-l)/2)
            m = np.mean(e>rilling_thresh[0]); stop = not (m>rilling_thresh[2] or np.any(e>rilling_thresh[1])); margin=None
        else:
            stop = k==max_iters; margin=None
        trace.append((k,float(m) if stop_method!='fixed' else None))
        if stop: return ('stop', k, x1, trace)
        p = p - env_step_size*avg
res={}; tot=0; paths={}
for kind in ['noise','walk','tones','amfm','int','const','ramp']:
  for n in [3,5,8,16,40,100,300]:
    for stop in ['sd','rilling','fixed']:
      for interp in ['splrep','pchip','mono_pchip']:
        for rep in range(3):
            x = gen(rng,kind,n)
            step = float(rng.choice([1,.7,.3]))
            mi = int(rng.choice([1,2,3,7,20,1000]))
            opts = dict(stop_method=stop, env_step_size=step, max_iters=mi, sd_thresh=float(rng.choice([.05,.1,.3,1e-3])), rilling_thresh=(0.05,0.5,0.05) if rng.random()<.5 else (0.1,1.0,0.2))
            kw = dict(envelope_opts={'interp_method':interp}, extrema_opts={'pad_width':int(rng.choice([1,2,3]))}, **opts)
            key=(kind,n,stop,interp,step,mi)
            tot+=1
            try:
                r = timed(ref, x, tmo=60, **kw)
            except TO:
                res.setdefault('REF_TIMEOUT',[]).append(key); continue
            try:
                out, flag = timed(S.get_next_imf, x, tmo=60, **kw)
                got=('ret',)
            except EMDSiftCovergeError as e:
                got=('raise',)
            except TO:
                res.setdefault('TIMEOUT',[]).append(key); continue
            except Exception as e:
                res.setdefault(('EXC',type(e).__name__,str(e)[:60]),[]).append(key); continue
            paths[(r[0], r[1]==1)] = paths.get((r[0], r[1]==1),0)+1
            if r[0]=='raise':
                if got[0]!='raise': res.setdefault('expected_raise',[]).append(key)
            elif got[0]=='raise':
                res.setdefault('unexpected_raise',[]).append(key+(r[0],r[1]))
            else:
                if not np.array_equal(out, r[2]): res.setdefault(('value_mismatch',r[0]),[]).append(key+(np.abs(out-r[2]).max(),))
                expflag = not (r[0]=='noext' and r[1]==1)
                if flag!=expflag: res.setdefault(('flag',r[0],r[1]==1),[]).append(key+(flag,))
print(tot, paths)
for k,v in res.items(): print(k, len(v), v[:6])
