from common import *
import tempfile, io, copy
rng=np.random.default_rng(0)
x = gen(rng,'tones',200)+.1*rng.standard_normal(200)
for name in ['sift','ensemble_sift','complete_ensemble_sift','mask_sift']:
    conf = S.get_config(name)
    print(name, dict(conf.store) if name=='sift' else list(conf.store))
    f = getattr(S,name)
    np.random.seed(0); a = f(x); np.random.seed(0); b = f(x, **conf); np.random.seed(0); c = conf.get_func()(x)
    a0 = a[0] if isinstance(a,tuple) else a; b0 = b[0] if isinstance(b,tuple) else b; c0=c[0] if isinstance(c,tuple) else c
    print('  default==conf', a0.shape==b0.shape and np.array_equal(a0,b0), 'get_func', a0.shape==c0.shape and np.array_equal(a0,c0))
    # yaml file
    fn = tempfile.mktemp()
    conf['imf_opts/sd_thresh']=0.05; conf['extrema_opts/pad_width']=3
    before = copy.deepcopy(conf.store)
    conf.to_yaml_file(fn)
    print('  store mutated by export:', before!=conf.store, type(conf['imf_opts/rilling_thresh']))
    c2 = S.SiftConfig.from_yaml_file(fn)
    print('  file rt: type', c2.sift_type==name, 'store eq', c2.store==conf.store)
    txt = conf.to_yaml_text()
    try:
        c3 = S.SiftConfig.from_yaml_stream(txt); print('  text rt: type', c3.sift_type, type(c3.store), c3.store==conf.store if isinstance(c3.store,dict) else None)
    except Exception as e: print('  text EXC', type(e).__name__, str(e)[:80])
    try:
        c4 = S.SiftConfig.from_yaml_stream(open(fn)); print('  stream(file) rt:', c4.sift_type, type(c4.store))
    except Exception as e: print('  stream(file) EXC', type(e).__name__, str(e)[:80])
conf=S.get_config('sift')
conf['extrema_opts/loc_pad_opts/mode']='edge'; print(conf['extrema_opts']['loc_pad_opts'])
del conf['extrema_opts/loc_pad_opts/reflect_type']; print(conf['extrema_opts']['loc_pad_opts'])
del conf['imf_opts/energy_thresh']; print('energy_thresh' in conf['imf_opts'])
conf['a/b/c/d']=1
