from common import *
rng=np.random.default_rng(4)
res={}
tot=0
for rep in range(60):
    kind=str(rng.choice(['noise','walk','tones','amfm'])); n=int(rng.choice([40,100,300]))
    x=gen(rng,kind,n)
    stop=str(rng.choice(['sd','rilling','fixed'])); interp=str(rng.choice(['splrep','pchip','mono_pchip']))
    io={'stop_method':stop}; 
    if stop=='fixed': io['max_iters']=4
    kw=dict(imf_opts=io, envelope_opts={'interp_method':interp}, extrema_opts={'pad_width':int(rng.choice([1,2,3]))})
    try:
        a=timed(S.sift,x,tmo=30,**kw)
        for c in [2.**int(rng.integers(-8,9)), -1., -2.**int(rng.integers(-8,9))]:
            b=timed(S.sift,c*x,tmo=30,**kw); tot+=1
            if not (a.shape==b.shape and np.array_equal(b,c*a)): res.setdefault(('sift_inexact',c<0),[]).append((rep,kind,n,stop,interp,a.shape,b.shape))
        r=timed(S.sift,x[::-1].copy(),tmo=30,**kw); tot+=1
        if not (r.shape==a.shape and np.allclose(r[::-1],a,atol=1e-7*np.abs(x).max())): res.setdefault('sift_reverse',[]).append((rep,kind,n,stop,interp,a.shape,r.shape))
        for mode in ['ratio_sig','ratio_imf']:
            m=timed(S.mask_sift,x,tmo=30,mask_amp_mode=mode,max_imfs=3,mask_freqs=.2,**kw)
            for c in [4.,.125]:
                m2=timed(S.mask_sift,c*x,tmo=30,mask_amp_mode=mode,max_imfs=3,mask_freqs=.2,**kw); tot+=1
                if not (m.shape==m2.shape and np.array_equal(m2,c*m)): res.setdefault(('mask_inexact',mode),[]).append((rep,np.abs(m2-c*m).max()))
            m3=timed(S.mask_sift,3.7*x,tmo=30,mask_amp_mode=mode,max_imfs=3,mask_freqs=.2,**kw); tot+=1
            if not (m.shape==m3.shape and np.allclose(m3,3.7*m,rtol=1e-7,atol=1e-9)): res.setdefault(('mask_notclose',mode),[]).append((rep,np.abs(m3-3.7*m).max()))
    except TO: res.setdefault('TO',[]).append(rep)
    except Exception as e: res.setdefault(('EXC',type(e).__name__,str(e)[:50]),[]).append(rep)
print(tot)
for k,v in res.items(): print(k,len(v),v[:4])
