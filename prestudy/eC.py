from common import *
exec(open('/tmp/exp/e02d.py').read().split("rows=[]")[0].split("rng = np.random.default_rng(11)")[1])  # import ref()
rng=np.random.default_rng(21)
stats={}
worst=0
for rep in range(150):
    kind=str(rng.choice(['noise','walk','tones','amfm'])); n=int(rng.choice([40,100,300])); x=gen(rng,kind,n)
    stop=str(rng.choice(['sd','rilling','fixed'])); interp=str(rng.choice(['splrep','pchip','mono_pchip']))
    io={'stop_method':stop}
    if stop=='fixed': io['max_iters']=4
    env={'interp_method':interp}; ext={'pad_width':int(rng.choice([1,2,3]))}
    try:
        a=timed(S.sift,x,tmo=30,imf_opts=io,envelope_opts=env,extrema_opts=ext)
        r=timed(S.sift,x[::-1].copy(),tmo=30,imf_opts=io,envelope_opts=env,extrema_opts=ext)
        c=3.7; b=timed(S.sift,c*x,tmo=30,sift_thresh=1e-8*c,imf_opts=io,envelope_opts=env,extrema_opts=ext)
    except Exception as e: continue
    compared=0; sc=np.abs(x).max()
    for k in range(a.shape[1]):
        resid = x - a[:,:k].sum(axis=1)
        try: rr=timed(ref,resid,tmo=30,envelope_opts=env,extrema_opts=ext,**io)
        except Exception: break
        g=rr[3]
        # scale guard relative to residual scale already (ref uses max|X| of its input)
        if g<1e-6: break
        if k>=r.shape[1] or k>=b.shape[1]: stats.setdefault((interp,'MISSING_COL'),[]).append(rep); break
        er=np.abs(r[::-1,k]-a[:,k]).max()/sc; es=np.abs(b[:,k]-c*a[:,k]).max()/(c*sc)
        worst=max(worst,er,es)
        if er>1e-10 or es>1e-10: stats.setdefault((interp,'BAD'),[]).append((rep,k,er,es,g)); break
        compared+=1
    stats.setdefault((interp,'compared'),[]).append((compared,a.shape[1]))
for k,v in stats.items():
    if k[1]=='compared': print(k, 'cases',len(v),'mean compared',np.mean([c for c,_ in v]),'mean total',np.mean([t for _,t in v]))
    else: print(k,len(v),v[:5])
print('worst',worst)
