from common import *
from emd import spectra as SP
rng=np.random.default_rng(0)
res={}
for rep in range(300):
    T=int(rng.integers(1,8)); M=int(rng.integers(1,4)); K=int(rng.integers(1,4)); nb=int(rng.integers(1,5)); nb2=int(rng.integers(1,5))
    e1,_ = SP.define_hist_bins(1, 5, nb); e2,_=SP.define_hist_bins(.1,2,nb2,scale='log')
    p1 = np.r_[e1, e1-1e-9, [-3,0,7], rng.uniform(0,6,5)]; p2=np.r_[e2,e2-1e-9,[-1,0,3],rng.uniform(0,2.5,5)]
    IF = rng.choice(p1,(T,M)); IF2=rng.choice(p2,(T,M,K)); IA2 = rng.uniform(.1,2,(T,M,K))
    for mode in ['energy','amplitude']:
        b=np.zeros((T,nb2,nb))
        for t in range(T):
            for m in range(M):
                for k in range(K):
                    for a in range(nb2):
                        for c in range(nb):
                            if e2[a]<=IF2[t,m,k]<e2[a+1] and e1[c]<=IF[t,m]<e1[c+1]:
                                b[t,a,c]+= IA2[t,m,k]**2 if mode=='energy' else IA2[t,m,k]
        for sq,exp in [(False,b),('sum',b.sum(0)),('mean',b.mean(0))]:
            try:
                h = SP.holospectrum(IF,IF2,IA2,e1,e2,mode=mode,squash_time=sq)
                ok = h.shape==exp.shape and np.allclose(h,exp)
                if not ok: res[(str(sq),'mismatch',h.shape==exp.shape)]=res.get((str(sq),'mismatch',h.shape==exp.shape),0)+1
            except Exception as ex:
                k=(str(sq),type(ex).__name__,str(ex)[:60]); res[k]=res.get(k,0)+1
print(res)
