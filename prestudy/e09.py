from common import *
from emd import spectra as SP, utils as U
rng=np.random.default_rng(0)
res={}
worst={}
for method in ['hilbert','nht','quad']:
  for rep in range(150):
    sr = float(rng.choice([1,100,512,2000]))
    n = int(rng.choice([512,1000,4000]))
    cyc = rng.uniform(6, n/12)   # cycles per record
    f = cyc*sr/n
    A = 10**rng.uniform(-1.5,1.5)
    ph0 = rng.uniform(0,2*np.pi)
    t = np.arange(n)/sr
    x = A*np.cos(2*np.pi*f*t+ph0)
    ncol = int(rng.integers(1,4))
    X = np.tile(x[:,None],(1,ncol))
    try:
        IP,IF,IA = SP.frequency_transform(X, sr, method)
    except Exception as e:
        res[('EXC',method,type(e).__name__,str(e)[:50])] = res.get(('EXC',method,type(e).__name__,str(e)[:50]),0)+1; continue
    assert IP.shape==IF.shape==IA.shape==X.shape, (IP.shape, X.shape)
    m = int(max(3*n/cyc, 20)); sl = slice(m, n-m)
    ef = np.abs(IF[sl]-f).max()/f
    ea = np.abs(IA[sl]-A).max()/A
    truep = (2*np.pi*f*t+ph0+np.pi/2)%(2*np.pi)
    dp = np.angle(np.exp(1j*(IP[sl,0]-truep[sl])))
    ep = np.abs(dp).max()
    rng_ok = (IP>=0).all() and (IP<2*np.pi).all()
    w = worst.setdefault(method,[0,0,0]); w[0]=max(w[0],ef); w[1]=max(w[1],ea); w[2]=max(w[2],ep)
    if not rng_ok: res[('range',method)] = res.get(('range',method),0)+1
    # scale invariance
    IP2,IF2,IA2 = SP.frequency_transform(4*X, sr, method)
    if not (np.array_equal(IP2,IP) and np.array_equal(IF2,IF) and np.array_equal(IA2,4*IA)):
        k=('scale_inexact',method, bool(np.allclose(IP2,IP) and np.allclose(IF2,IF) and np.allclose(IA2,4*IA))); res[k]=res.get(k,0)+1
    # IF = sr/(2pi) * gradient(unwrap(IP))
    g = np.gradient(np.unwrap(IP,axis=0),axis=0)*sr/(2*np.pi)
    d = np.abs(g-IF)[2:-2].max()/f
    if d>1e-6: res[('deriv',method)] = res.get(('deriv',method),0)+1; worst.setdefault(('deriv',method),[0])[0]=max(worst.setdefault(('deriv',method),[0])[0], d)
print(worst); print(res)
# round trip
for rep in range(5):
    n=500; sr=100.
    prof = 5+2*np.sin(np.linspace(0,6,n))+rng.uniform(0,1)
    ph = SP.phase_from_freq(prof, sr, phase_start=0)
    back = SP.freq_from_phase(ph, sr)
    exp = np.r_[prof[1], (prof[2:]+prof[1:-1])/2, prof[-1]]
    print('rt', np.abs(back-exp).max())
    c = np.full(n, 7.3); print('const', np.abs(SP.freq_from_phase(SP.phase_from_freq(c,sr),sr)-c).max())
