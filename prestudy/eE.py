from common import *
import os, json, functools, tempfile, glob
TR = tempfile.mkdtemp(prefix='tr')
def wrap(name):
    orig = getattr(S, name)
    @functools.wraps(orig)
    def w(*a, **k):
        with open(os.path.join(TR, '%d.jsonl'%os.getpid()),'a') as f: f.write(json.dumps([name, os.getpid(), k], default=str, sort_keys=True)+'\n')
        return orig(*a, **k)
    setattr(S, name, w)
for n in ['interp_envelope','get_padded_extrema','get_next_imf']: wrap(n)
def read():
    out=[]
    for f in glob.glob(TR+'/*.jsonl'):
        out+= [json.loads(l) for l in open(f)]; os.remove(f)
    return out
rng=np.random.default_rng(0); x = gen(rng,'tones',200)+.2*rng.standard_normal(200)
I={'stop_method':'fixed','max_iters':3,'env_step_size':.5}; E={'interp_method':'mono_pchip'}; X={'pad_width':2,'parabolic_extrema':True,'mag_pad_opts':{'mode':'mean','stat_length':2}}
def sub(a,b):  # a subset of b
    return all(k in b and (sub(v,b[k]) if isinstance(v,dict) and isinstance(b[k],dict) else json.dumps(v,default=str)==json.dumps(b[k],default=str)) for k,v in a.items())
def check(rows):
    bad=[]
    for st,pid,k in rows:
        if st=='get_next_imf':
            ok = sub(I,k) and sub(E,k.get('envelope_opts') or {}) and sub(X,k.get('extrema_opts') or {})
        elif st=='interp_envelope': ok = sub(E,k) and sub(X,k.get('extrema_opts') or {})
        else: ok = sub(X,k)
        if not ok: bad.append((st,k))
    return len(rows), len(set(p for _,p,_ in rows)), bad[:2]
for vname in ['sift','mask_sift','ensemble_sift','complete_ensemble_sift']:
    f=getattr(S,vname)
    extra={'max_imfs':2}
    if 'ensemble' in vname: extra.update(nensembles=2,nprocesses=2)
    if vname=='complete_ensemble_sift': extra['max_imfs']=1
    if vname=='mask_sift': extra['nprocesses']=2
    # route 1
    np.random.seed(0); f(x, imf_opts=I, envelope_opts=E, extrema_opts=X, **extra); print(vname,'kwargs', check(read()))
    conf=S.get_config(vname)
    for k,v in I.items(): conf['imf_opts/'+k]=v
    conf['envelope_opts/interp_method']=E['interp_method']; conf['extrema_opts/pad_width']=2; conf['extrema_opts/parabolic_extrema']=True; conf['extrema_opts/mag_pad_opts']=X['mag_pad_opts']
    for k,v in extra.items(): conf[k]=v
    np.random.seed(0); f(x, **conf); print(vname,'**config', check(read()))
    np.random.seed(0); conf.get_func()(x); print(vname,'get_func', check(read()))
