from common import *
import itertools, io, contextlib
from emd import cycles as C
res={}
alpha = np.array([0.1, 1.5, 3.1, 4.7, 6.2])
def ref_all(ph, step=1.5*np.pi):
    n=len(ph); w=[i+1 for i in range(n-1) if abs(ph[i+1]-ph[i])>step]
    if not w: return np.full(n,-1), []
    b=[0]+w+[n]; b=sorted(set(b))
    lab=np.full(n,-1); segs=[]
    for k in range(len(b)-1):
        lab[b[k]:b[k+1]]=k; segs.append((b[k],b[k+1]))
    return lab, segs
tot=0
for L in range(2,8):
    for seq in itertools.product(range(5), repeat=L):
        ph = alpha[list(seq)]; tot+=1
        exp,segs = ref_all(ph)
        try:
            with contextlib.redirect_stdout(io.StringIO()):
                got = C.get_cycle_vector(ph, return_good=False)[:,0]
        except Exception as e:
            k=('EXC_all',type(e).__name__); res.setdefault(k,[]).append(seq); continue
        if not np.array_equal(got,exp):
            # classify
            if np.array_equal(got[:-1],exp[:-1]) : k='last_sample_only'
            else: k='other'
            res.setdefault(k,[]).append((seq,got.tolist(),exp.tolist()))
        try:
            with contextlib.redirect_stdout(io.StringIO()):
                g = C.get_cycle_vector(ph, return_good=True)[:,0]
        except Exception as e:
            k=('EXC_good',type(e).__name__,str(e)[:40]); res.setdefault(k,[]).append(seq); continue
print(tot)
for k,v in res.items(): print(k,len(v),v[:3])
