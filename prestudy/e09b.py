from common import *
from emd import spectra as SP
rng=np.random.default_rng(1)
W={}
for method in ['hilbert','nht','quad']:
  st=[]
  for rep in range(400):
    sr = float(rng.choice([1,100,512,2000])); n = int(rng.choice([512,1000,4000]))
    cyc = rng.uniform(6, n/12); f = cyc*sr/n; A = 10**rng.uniform(-1.5,1.5); ph0 = rng.uniform(0,2*np.pi)
    t = np.arange(n)/sr; x = A*np.cos(2*np.pi*f*t+ph0)[:,None]
    IP,IF,IA = SP.frequency_transform(x, sr, method)
    m = int(max(3*n/cyc, 20)); sl = slice(m, n-m)
    ef=np.abs(IF[sl,0]-f)/f; ea=np.abs(IA[sl,0]-A)/A
    truep=(2*np.pi*f*t+ph0+np.pi/2)%(2*np.pi); ep=np.abs(np.angle(np.exp(1j*(IP[sl,0]-truep[sl]))))
    st.append([ef.max(),np.median(ef),np.percentile(ef,95),ea.max(),ep.max(),np.median(ep),np.percentile(ep,95), np.abs(np.mean(IF[sl,0])-f)/f])
  st=np.array(st); print(method, 'max over cases of [efmax, efmed, efp95, eamax, epmax, epmed, epp95, meanIFerr]:', np.round(st.max(0),4))
