from common import *
import logging, io, contextlib
from emd import logger as L
rng=np.random.default_rng(0)
x = gen(rng,'tones',120)
base = S.sift(x)
print('never set up: level', L.get_level(), 'active', L.is_active())
for v in [None,'DEBUG','CRITICAL']:
    try:
        o = S.sift(x, verbose=v); print(' pre-setup verbose',v,'ok', np.array_equal(o,base), L.get_level())
    except Exception as e: print(' pre-setup verbose',v,'EXC',type(e).__name__, repr(e)[:60])
buf=io.StringIO()
with contextlib.redirect_stdout(buf):
    L.set_up(level='WARNING')
print('after set_up level', L.get_level())
for v in [None,'DEBUG','INFO','CRITICAL','WARNING']:
    with contextlib.redirect_stdout(io.StringIO()):
        o = S.sift(x, verbose=v)
    print(' verbose',v, np.array_equal(o,base), 'level after', L.get_level())
# raising call
with contextlib.redirect_stdout(io.StringIO()):
    try: S.sift(np.ones((10,2,3)), verbose='DEBUG')
    except Exception as e: r=type(e).__name__
print(' raise', r, 'level after', L.get_level())
with contextlib.redirect_stdout(io.StringIO()):
    L.set_level('WARNING'); L.disable(); o=S.sift(x, verbose='DEBUG'); 
print(' disabled', np.array_equal(o,base), L.get_level()); L.enable()
with contextlib.redirect_stdout(io.StringIO()):
    for f in [lambda v: S.mask_sift(x,max_imfs=2,verbose=v), lambda v: S.ensemble_sift(x,nensembles=2,max_imfs=2,verbose=v), lambda v: S.complete_ensemble_sift(x,nensembles=2,max_imfs=1,verbose=v)]:
        f('INFO')
print(' other variants level after', L.get_level())
