from common import *
from emd import cycles as C
from scipy import spatial
res={}
rng=np.random.default_rng(0)
tot=0
for rep in range(1500):
    nf=int(rng.integers(1,5)); nx=int(rng.integers(1,60)); ny=int(rng.integers(1,60))
    if rng.random()<.3:
        x=rng.integers(0,5,(nx,nf)).astype(float); y=rng.integers(0,5,(ny,nf)).astype(float)
    else:
        x=rng.standard_normal((nx,nf)); y=rng.standard_normal((ny,nf))
    if nf==1 and rng.random()<.5: x=x[:,0]; y=y[:,0]
    K=int(rng.integers(1,16)); dub=float(rng.choice([np.inf,1.0,.2]))
    tot+=1
    try:
        xi,yi = timed(C.kdt_match, x,y,K=K,distance_upper_bound=dub, tmo=20)
    except TO: res.setdefault('TO',[]).append(rep); continue
    except Exception as e:
        res.setdefault(('EXC',type(e).__name__,str(e)[:50],K==1, K>ny),[]).append(rep); continue
    X2=x.reshape(nx,-1); Y2=y.reshape(ny,-1)
    bad=None
    if len(xi)!=len(yi): bad='len'
    elif len(set(xi.tolist()))!=len(xi): bad='dup_x'
    elif len(set(yi.tolist()))!=len(yi): bad='dup_y'
    elif len(xi) and (xi.min()<0 or xi.max()>=nx or yi.min()<0 or yi.max()>=ny): bad='range'
    else:
        for a,b in zip(xi,yi):
            d=np.linalg.norm(X2[a]-Y2[b])
            if d>dub+1e-12: bad='dist'; break
            dk=np.sort(np.linalg.norm(Y2-X2[a],axis=1))[:K]
            if d>dk[-1]+1e-9: bad='knn'; break
    if bad: res.setdefault((bad,),[]).append((rep,nx,ny,K))
print(tot)
for k,v in res.items(): print(k,len(v),v[:4])
